"""symnp: the numpy subset basictdf touches, as a pure-Python model over proxy leaves.

An ndarray is (shape, dtype, shared leaf buffer, index map).  Slices, field accesses,
transposes and reshapes share the leaf buffer with their base, like numpy views.

Leaves by dtype kind:
  float  -> int bits (concrete) or z3 BitVec (symbolic), width from the dtype
  int    -> Python int (normalised to the dtype's range) or SInt / SBVInt
  bool   -> bool or SBool
  object -> any Python object

Semantics were read off numpy 1.26.4 (see DESIGN §1.3) and are re-validated on every
run by witness replay against the real numpy build.
"""
from __future__ import annotations

import builtins as _b
import itertools
import operator
import re
from typing import Any, List, Optional, Sequence, Tuple

import numpy as _rnp  # the real numpy: used only for concrete scalar conversions
import z3

from . import engine as E
from .engine import SBool, SBVInt, SFloat, SInt, Unsupported, mkbool
from .sbytes import IB, SBytes, item_bv, items_of, mkbytes

nan = float("nan")
NaN = nan
inf = float("inf")
newaxis = None


class UnsupportedInShim(Unsupported):
    pass


# ---------------------------------------------------------------------------------
# scalar type objects (usable as dtype arguments)
# ---------------------------------------------------------------------------------


class generic:
    _code: Optional[str] = None

    def __new__(cls, value=0):
        # np.float32(x), np.int16(x) ...: a scalar of that type
        if cls._code is None:
            raise UnsupportedInShim("np.generic()")
        a = array(value, dtype=dtype(cls))
        if a.shape != ():
            raise UnsupportedInShim("scalar type called on a sequence")
        return a._elem_out(a._idx[0])


def _mk_scalar_type(name: str, code: str):
    return type(name, (generic,), {"_code": code})


float32 = _mk_scalar_type("float32", "f4")
float64 = _mk_scalar_type("float64", "f8")
int8 = _mk_scalar_type("int8", "i1")
int16 = _mk_scalar_type("int16", "i2")
int32 = _mk_scalar_type("int32", "i4")
int64 = _mk_scalar_type("int64", "i8")
uint8 = _mk_scalar_type("uint8", "u1")
uint16 = _mk_scalar_type("uint16", "u2")
uint32 = _mk_scalar_type("uint32", "u4")
uint64 = _mk_scalar_type("uint64", "u8")
bool_ = _mk_scalar_type("bool_", "b1")
object_ = _mk_scalar_type("object_", "O")
double = float64
single = float32

class _Sizes(dict):
    """Item sizes of leaf codes; fixed-width byte strings ('S<n>') have their own width."""

    def __missing__(self, code):
        if isinstance(code, str) and re.fullmatch(r"S\d+", code):
            return int(code[1:])
        raise KeyError(code)

    def __contains__(self, code):
        return dict.__contains__(self, code) or bool(isinstance(code, str) and re.fullmatch(r"S[1-9]\d*", code))


_SCALAR_SIZES = _Sizes({
    "f4": 4, "f8": 8, "i1": 1, "i2": 2, "i4": 4, "i8": 8,
    "u1": 1, "u2": 2, "u4": 4, "u8": 8, "b1": 1, "O": 8,
})


class dtype:
    """np.dtype for: scalars, sub-array dtypes ("3<f4", "(3,3)<f8") and structured
    dtypes given as lists of (name, spec)."""

    def __new__(cls, spec=None, align=False, copy=False):
        if isinstance(spec, dtype):
            return spec
        self = object.__new__(cls)
        self.order = "<"  # byte order of multi-byte scalars: values are stored order-free, bytes are not
        self.code = None
        self.shape = ()
        self.fields_list = None
        self.names = None
        self._base = None
        if isinstance(spec, type) and issubclass(spec, generic):
            self.code = spec._code
        elif spec is float:
            self.code = "f8"
        elif spec is int:
            self.code = "i8"
        elif spec is bool:
            self.code = "b1"
        elif spec is object:
            self.code = "O"
        elif isinstance(spec, str):
            self._parse(spec)
        elif isinstance(spec, list):
            self.fields_list = []
            off = 0
            leaf = 0
            for f in spec:
                if len(f) == 2:
                    name, sub = f
                    d = dtype(sub)
                else:
                    name, sub, shp = f
                    d = dtype(sub)
                    if shp not in ((), 1):
                        shp = (shp,) if isinstance(shp, int) else tuple(shp)
                        d = _subarray(d, shp)
                if d.fields_list is not None:
                    raise UnsupportedInShim("nested structured dtype")
                self.fields_list.append((name, d, off, leaf))
                off += d.itemsize
                leaf += d.nleaves
            self.names = tuple(f[0] for f in self.fields_list)
        elif isinstance(spec, tuple) and len(spec) == 2:
            d = dtype(spec[0])
            shp = (spec[1],) if isinstance(spec[1], int) else tuple(spec[1])
            return _subarray(d, shp)
        elif isinstance(spec, type) and hasattr(_rnp, spec.__name__) and getattr(_rnp, spec.__name__) is spec:
            self.code = _rnp.dtype(spec).str[1:]
        else:
            raise UnsupportedInShim(f"dtype({spec!r})")
        return self

    def _parse(self, s: str) -> None:
        m = re.fullmatch(r"\s*([<>=|]?)\s*(\((?:\d+,?\s*)+\)|\d+)?\s*([<>=|]?)\s*([fiubO?Sa])(\d*)\s*", s)
        if not m:
            names = {"float32": "f4", "float64": "f8", "int16": "i2", "int32": "i4", "int64": "i8",
                     "uint16": "u2", "uint32": "u4", "uint8": "u1", "int8": "i1", "uint64": "u8",
                     "object": "O", "bool": "b1", "float": "f8", "int": "i8", "double": "f8"}
            if s in names:
                self.code = names[s]
                return
            raise UnsupportedInShim(f"dtype string {s!r}")
        e1, shp, e2, kind, size = m.groups()
        big = ">" in (e1, e2)
        if kind == "O":
            code = "O"
        elif kind in "Sa":
            code = "S" + (size or "0")  # fixed-width byte string: the leaf is a tuple of byte cells
        elif kind == "?":
            code = "b1"
        else:
            if kind == "b" and size == "1":
                code = "b1"  # numpy: 'b1' is bool, plain 'b' is int8
            elif kind == "b":
                code = "i1"
            else:
                code = kind + (size or "8")
        if code not in _SCALAR_SIZES:
            raise UnsupportedInShim(f"dtype string {s!r}")
        if big and _SCALAR_SIZES[code] > 1 and code[0] in "fiu":
            self.order = ">"
        if shp:
            dims = tuple(int(x) for x in re.findall(r"\d+", shp))
            if shp.startswith("(") or dims != (1,):
                base = dtype.__new__(dtype, self.order + code)
                self.order = "<"
                self.code = None
                self.shape = dims
                self._base = base
                return
        self.code = code

    # -- properties -------------------------------------------------------------
    @property
    def base(self) -> "dtype":
        return self._base if self._base is not None else self

    @property
    def itemsize(self) -> int:
        if self._base is not None:
            n = 1
            for d in self.shape:
                n *= d
            return n * self._base.itemsize
        if self.fields_list is not None:
            return _b.sum(f[1].itemsize for f in self.fields_list)
        return _SCALAR_SIZES[self.code]

    @property
    def nleaves(self) -> int:
        if self._base is not None:
            n = 1
            for d in self.shape:
                n *= d
            return n
        if self.fields_list is not None:
            return _b.sum(f[1].nleaves for f in self.fields_list)
        return 1

    @property
    def ndim(self) -> int:
        return len(self.shape)

    @property
    def kind(self) -> str:
        if self.fields_list is not None or self._base is not None:
            return "V"
        return {"f": "f", "i": "i", "u": "u", "b": "b", "O": "O", "S": "S"}[self.code[0]]

    @property
    def fields(self):
        if self.fields_list is None:
            return None
        return {f[0]: (f[1], f[2]) for f in self.fields_list}

    @property
    def name(self) -> str:
        return repr(self)

    @property
    def str(self) -> str:
        return ("|" if (self.code or "V")[0] == "S" else self.order) + (self.code or "V")

    @property
    def type(self):
        for t in (float32, float64, int8, int16, int32, int64, uint8, uint16, uint32, uint64, bool_, object_):
            if t._code == self.code:
                return t
        return generic

    def leaf_orders(self) -> List[str]:
        if self.fields_list is not None:
            out: List[str] = []
            for _, d, _, _ in self.fields_list:
                out.extend(d.leaf_orders())
            return out
        if self._base is not None:
            return [self._base.order] * self.nleaves
        return [self.order]

    def leaf_codes(self) -> List[str]:
        if self.fields_list is not None:
            out: List[str] = []
            for _, d, _, _ in self.fields_list:
                out.extend(d.leaf_codes())
            return out
        if self._base is not None:
            return [self._base.code] * self.nleaves
        return [self.code]

    def __len__(self) -> int:
        return len(self.fields_list) if self.fields_list is not None else 0

    def __getitem__(self, k):
        if self.fields_list is None:
            raise KeyError("There are no fields in dtype")
        if isinstance(k, int):
            return self.fields_list[k][1]
        for f in self.fields_list:
            if f[0] == k:
                return f[1]
        raise KeyError(k)

    def _key(self):
        if self.fields_list is not None:
            return ("V", tuple((f[0], f[1]._key()) for f in self.fields_list))
        if self._base is not None:
            return ("S", self.shape, self._base._key())
        return ("s", self.code, self.order)

    def newbyteorder(self, new_order="S"):
        if self.code is None or self.code[0] not in "fiu" or _SCALAR_SIZES[self.code] == 1:
            return self
        o = {"S": ">" if self.order == "<" else "<", "<": "<", ">": ">", "=": "<", "|": self.order, "L": "<", "B": ">", "N": "<"}.get(new_order)
        if o is None:
            raise ValueError(f"{new_order} is an unrecognized byteorder")
        return dtype.__new__(dtype, o + self.code)

    @property
    def byteorder(self) -> str:
        if self.code is None or self.code[0] not in "fiu" or _SCALAR_SIZES[self.code] == 1:
            return "|"
        return "=" if self.order == "<" else ">"

    @property
    def isnative(self) -> bool:
        return self.order == "<" and (self._base is None or self._base.order == "<")

    def __eq__(self, o):
        try:
            o = dtype(o)
        except (Unsupported, TypeError):
            return False
        return self._key() == o._key()

    def __ne__(self, o):
        return not self.__eq__(o)

    def __hash__(self):
        return hash(self._key())

    def __repr__(self) -> str:
        if self.fields_list is not None:
            return "dtype([" + ", ".join(f"({f[0]!r}, {f[1]!r})" for f in self.fields_list) + "])"
        if self._base is not None:
            return f"dtype(('<{self._base.code}', {self.shape}))"
        return f"dtype('{self.order}{self.code}')"

    __str__ = __repr__


def _subarray(base: dtype, shp: tuple) -> dtype:
    if base._base is not None or base.fields_list is not None:
        raise UnsupportedInShim("sub-array of non-scalar dtype")
    d = object.__new__(dtype)
    d.order = "<"
    d.code = None
    d.shape = tuple(shp)
    d.fields_list = None
    d.names = None
    d._base = base
    return d


def _scalar_dt(code: str) -> dtype:
    return dtype("<" + code if code != "O" else "O")


# ---------------------------------------------------------------------------------
# leaf conversions
# ---------------------------------------------------------------------------------


def _int_bounds(code: str):
    k = 8 * int(code[1:])
    if code[0] == "u":
        return 0, (1 << k) - 1, k
    return -(1 << (k - 1)), (1 << (k - 1)) - 1, k


def _wrap_int(v: int, code: str) -> int:
    lo, hi, k = _int_bounds(code)
    v &= (1 << k) - 1
    if code[0] == "i" and v > hi:
        v -= 1 << k
    return v


def _fw(code: str) -> int:
    return 8 * int(code[1:])


def to_leaf(v: Any, code: str, from_python: bool = True):
    """Convert a scalar value to a leaf of dtype `code` (numpy casting semantics)."""
    if code == "O":
        return v
    if isinstance(v, Scalar0):
        v = v.value
    if code[0] == "S":
        n = int(code[1:])
        if isinstance(v, tuple) and len(v) == n:
            return v
        if isinstance(v, (bytes, SBytes)):
            items = list(items_of(v))[:n]
            return tuple(items + [0] * (n - len(items)))
        raise UnsupportedInShim(f"cast of {type(v).__name__} to a byte-string dtype")
    if code[0] == "f":
        w = _fw(code)
        if isinstance(v, FloatLeaf):
            if v.w == w:
                return v.b
            if isinstance(v.b, int):
                with _rnp.errstate(all="ignore"):
                    return E.float_to_bits(float(E.bits_to_float(v.b, v.w)), w)
            if v.w == 32 and w == 64:
                return _widen_f32_bits(v.b)
            raise UnsupportedInShim("narrowing cast of a symbolic float64 to float32")
        if isinstance(v, SFloat):
            return to_leaf(FloatLeaf(v.w, v.b), code)
        if v is None:
            return E.float_to_bits(float("nan"), w)
        if isinstance(v, (bool, int, float, _rnp.floating, _rnp.integer, _rnp.bool_)):
            return E.float_to_bits(float(v), w)
        if isinstance(v, E.SymIntBase):
            raise UnsupportedInShim("cast of a symbolic int to float")
        if isinstance(v, str):
            try:
                return E.float_to_bits(float(v), w)
            except ValueError:
                raise ValueError(f"could not convert string to float: {v!r}")
        if isinstance(v, (ndarray, list, tuple)):
            raise ValueError("setting an array element with a sequence.")
        raise TypeError(f"float() argument must be a string or a real number, not '{type(v).__name__}'")
    if code[0] in "iu":
        lo, hi, k = _int_bounds(code)
        if isinstance(v, FloatLeaf):
            if isinstance(v.b, int):
                f = float(E.bits_to_float(v.b, v.w))
                if f != f:
                    raise ValueError("cannot convert float NaN to integer")
                return _wrap_int(int(f), code)
            raise UnsupportedInShim("cast of a symbolic float to int")
        if isinstance(v, SFloat):
            return to_leaf(FloatLeaf(v.w, v.b), code)
        if isinstance(v, (bool, _rnp.bool_)):
            return int(v)
        if isinstance(v, (int, _rnp.integer)):
            v = int(v)
            if from_python and not (-(1 << 63) <= v < (1 << 64)):
                raise OverflowError("Python int too large to convert to C long")
            return _wrap_int(v, code)
        if isinstance(v, (float, _rnp.floating)):
            if v != v:
                raise ValueError("cannot convert float NaN to integer")
            return _wrap_int(int(v), code)
        if isinstance(v, SBVInt):
            bits = z3.Extract(k - 1, 0, v.e)
            return E.bv_from_field(bits, code[0] == "i")
        if isinstance(v, SInt):
            inr = z3.And(v.e >= lo, v.e <= hi)
            if E.branch(inr):
                return v
            return E.mkint(((v.e - lo) % (1 << k)) + lo)
        if isinstance(v, SBool):
            return 1 if bool(v) else 0  # bool -> integer cast: the symbolic bit is decided (forks)
        if v is None:
            raise TypeError("int() argument must be a string, a bytes-like object or a real number, not 'NoneType'")
        if isinstance(v, str):
            raise ValueError(f"invalid literal for int() with base 10: {v!r}")
        if isinstance(v, (ndarray, list, tuple)):
            raise ValueError("setting an array element with a sequence.")
        raise TypeError(f"int() argument must be a string, a bytes-like object or a real number, not '{type(v).__name__}'")
    if code == "b1":
        if isinstance(v, SBool):
            return v
        if isinstance(v, E.SymIntBase):
            return v != 0
        if isinstance(v, FloatLeaf):
            if isinstance(v.b, int):
                return float(E.bits_to_float(v.b, v.w)) != 0
            raise UnsupportedInShim("bool of symbolic float")
        return bool(v)
    raise UnsupportedInShim(f"leaf code {code}")


def _widen_f32_bits(b):
    """float32 bits -> float64 bits (exact), via z3's FP theory (rare)."""
    f = z3.fpBVToFP(b, z3.Float32())
    d = z3.fpToFP(z3.RNE(), f, z3.Float64())
    return z3.fpToIEEEBV(d)


class FloatLeaf:
    """Internal: a float leaf taken out of an array (bits + width)."""

    __slots__ = ("w", "b")

    def __init__(self, w, b):
        self.w = w
        self.b = b


def leaf_out(x, code: str):
    """Leaf -> Python-level scalar handed to the code under test."""
    if code[0] == "f":
        w = _fw(code)
        if isinstance(x, int):
            return E.bits_to_float(x, w)  # a real numpy scalar
        return SFloat(w, x)
    if code[0] == "S":
        # numpy strips *trailing* NULs of an 'S' item, nothing else
        return mkbytes(list(x)).rstrip(b"\x00")
    return x


def leaf_in(v, code: str):
    """Value coming from the code under test / harness -> something to_leaf accepts."""
    if isinstance(v, SFloat):
        b = z3.simplify(v.b) if not isinstance(v.b, int) else v.b
        if not isinstance(b, int) and z3.is_bv_value(b):
            b = b.as_long()
        return FloatLeaf(v.w, b)
    if isinstance(v, _rnp.floating):
        w = 32 if v.dtype.itemsize == 4 else 64
        if v.dtype.itemsize not in (4, 8):
            return float(v)
        return FloatLeaf(w, E.float_to_bits(v, w) if w == 64 else int(_rnp.array(v, dtype="<f4").view("<u4")))
    return v


def leaf_bytes(x, code: str) -> list:
    n = int(code[1:]) if code != "O" else 8
    if code == "O":
        raise UnsupportedInShim("tobytes of an object array")
    if code[0] == "S":
        return list(x)
    if code[0] == "f":
        if isinstance(x, int):
            return list(x.to_bytes(n, "little"))
        return [z3.simplify(z3.Extract(8 * i + 7, 8 * i, x)) for i in range(n)]
    if code[0] in "iu":
        if isinstance(x, int):
            return list((x & ((1 << (8 * n)) - 1)).to_bytes(n, "little"))
        if isinstance(x, SBVInt):
            return [z3.simplify(z3.Extract(8 * i + 7, 8 * i, x.e)) for i in range(n)]
        if isinstance(x, SInt):
            return [IB(x.e, i, n) for i in range(n)]
    if code == "b1":
        if isinstance(x, bool):
            return [int(x)]
        return [z3.If(E.as_z3_bool(x), z3.BitVecVal(1, 8), z3.BitVecVal(0, 8))]
    raise UnsupportedInShim(f"leaf_bytes {code} {type(x)}")


def leaf_from_bytes(items: list, code: str):
    n = len(items)
    if code == "O":
        raise UnsupportedInShim("frombuffer with object dtype")
    if code[0] == "S":
        return tuple(items)
    if _b.all(isinstance(x, int) for x in items):
        if code[0] == "f":
            return int.from_bytes(bytes(items), "little")
        if code[0] in "iu":
            return int.from_bytes(bytes(items), "little", signed=(code[0] == "i"))
        if code == "b1":
            return items[0] != 0
    if code[0] in "iu" and _b.all(isinstance(x, IB) for x in items):
        x0 = items[0]
        if x0.w == n and _b.all(x.w == n and x.i == i and x.e.get_id() == x0.e.get_id() for i, x in enumerate(items)):
            lo, hi, k = _int_bounds(code)
            e = x0.e
            if E.active():
                if E.branch(z3.And(e >= lo, e <= hi)):
                    return E.mkint(e)
                return E.mkint(((e - lo) % (1 << k)) + lo)
    bits = z3.Concat(*[item_bv(x) for x in reversed(items)]) if n > 1 else item_bv(items[0])
    bits = z3.simplify(bits)
    if code[0] == "f":
        return bits.as_long() if z3.is_bv_value(bits) else bits
    if code[0] in "iu":
        return E.bv_from_field(bits, code[0] == "i")
    if code == "b1":
        return mkbool(bits != 0)
    raise UnsupportedInShim(f"leaf_from_bytes {code}")


def leaf_eq(a, b, code: str):
    """Element-wise `==` (numpy semantics) -> bool / z3 Bool."""
    if code[0] == "f":
        w = _fw(code)
        if isinstance(a, int) and isinstance(b, int):
            with _rnp.errstate(all="ignore"):
                return bool(E.bits_to_float(a, w) == E.bits_to_float(b, w))
        fa = SFloat(w, z3.BitVecVal(a, w) if isinstance(a, int) else a)
        fb = SFloat(w, z3.BitVecVal(b, w) if isinstance(b, int) else b)
        return z3.simplify(fa.fp_eq_e(fb))
    if code[0] == "S":
        r = leaf_out(a, code) == leaf_out(b, code)
        return r.e if isinstance(r, SBool) else bool(r)
    if code == "O":
        r = a == b
        if isinstance(r, ndarray):
            raise ValueError("The truth value of an array with more than one element is ambiguous.")
        return r.e if isinstance(r, SBool) else bool(r)
    r = a == b
    if isinstance(r, SBool):
        return r.e
    return bool(r)


# ---------------------------------------------------------------------------------
# ndarray
# ---------------------------------------------------------------------------------


def _prod(xs) -> int:
    n = 1
    for x in xs:
        n *= x
    return n


def _as_index(k) -> int:
    if isinstance(k, int):
        return k
    if isinstance(k, Scalar0):
        return operator.index(k.value)
    return operator.index(k)


class Scalar0:
    """Marker wrapper for 0-d results when needed (unused externally)."""

    def __init__(self, value):
        self.value = value


class Record:
    """A structured scalar (np.void): iterable over its fields."""

    def __init__(self, buf: list, base: int, dt: dtype, writeable: bool) -> None:
        self._buf = buf
        self._base = base
        self.dtype = dt
        self._w = writeable

    def _field(self, f):
        name, d, _, leaf = f
        if d._base is not None:
            idx = list(range(self._base + leaf, self._base + leaf + d.nleaves))
            return ndarray._mk(d.shape, d._base, self._buf, idx, self._w)
        x = leaf_out(self._buf[self._base + leaf], d.code)
        return E.as_np_scalar(x, d.code) if d.code[0] in "iu" else x

    def __iter__(self):
        for f in self.dtype.fields_list:
            yield self._field(f)

    def __len__(self):
        return len(self.dtype.fields_list)

    def __getitem__(self, k):
        if isinstance(k, int):
            return self._field(self.dtype.fields_list[k])
        for f in self.dtype.fields_list:
            if f[0] == k:
                return self._field(f)
        raise KeyError(k)

    def __getattr__(self, name):
        if name.startswith("_"):
            raise AttributeError(name)
        for f in self.dtype.fields_list:
            if f[0] == name:
                return self._field(f)
        raise AttributeError(name)

    def leaves(self):
        return [self._buf[self._base + i] for i in range(self.dtype.nleaves)]


class ndarray:
    # construction ----------------------------------------------------------------
    @staticmethod
    def _mk(shape, dt: dtype, buf: list, idx: list, writeable: bool = True) -> "ndarray":
        a = object.__new__(ndarray)
        a.shape = tuple(shape)
        a.dtype = dt
        a._buf = buf
        a._idx = idx
        a._writeable = writeable
        return a

    def __init__(self, *a, **k):
        raise UnsupportedInShim("np.ndarray(...) constructor")

    @property
    def _structured(self) -> bool:
        return self.dtype.fields_list is not None

    @property
    def ndim(self) -> int:
        return len(self.shape)

    @property
    def size(self) -> int:
        return _prod(self.shape)

    @property
    def itemsize(self) -> int:
        return self.dtype.itemsize

    @property
    def nbytes(self) -> int:
        return self.size * self.dtype.itemsize

    @property
    def T(self) -> "ndarray":
        return self.transpose()

    def _order_idx(self, fortran: bool) -> list:
        """buffer positions in C (row-major) or Fortran (column-major) element order"""
        if not fortran or self.ndim < 2:
            return list(self._idx)
        shp = self.shape
        strides, st = [], 1
        for d in reversed(shp):
            strides.append(st)
            st *= d
        strides.reverse()
        out = []
        for combo in itertools.product(*[range(d) for d in reversed(shp)]):
            pos = _b.sum(i * s_ for i, s_ in zip(reversed(combo), strides))
            out.append(self._idx[pos])
        return out

    def _contig(self, fortran: bool) -> bool:
        """the elements lie in consecutive buffer positions in the given order"""
        if self._structured:
            return not fortran
        idx = self._order_idx(fortran)
        return _b.all(idx[i + 1] == idx[i] + 1 for i in range(len(idx) - 1))

    @property
    def flags(self):
        class F:
            writeable = self._writeable
            c_contiguous = self._contig(False)
            f_contiguous = self._contig(True)
            contiguous = c_contiguous

            def __getitem__(self_, k):
                return {"C_CONTIGUOUS": self_.c_contiguous, "F_CONTIGUOUS": self_.f_contiguous, "WRITEABLE": self_.writeable,
                        "C": self_.c_contiguous, "F": self_.f_contiguous, "W": self_.writeable}[k]
        return F()

    @property
    def base(self):
        return None

    def __len__(self) -> int:
        if not self.shape:
            raise TypeError("len() of unsized object")
        return self.shape[0]

    # element access ----------------------------------------------------------------
    def _elem_out(self, pos: int):
        if self._structured:
            return Record(self._buf, pos, self.dtype, self._writeable)
        code = self.dtype.code
        if code[0] in "iu":
            return E.as_np_scalar(leaf_out(self._buf[pos], code), code)  # a numpy integer scalar, not an int
        return leaf_out(self._buf[pos], code)

    def _py_out(self, pos: int):
        """The element as a Python scalar (tolist / item / int())."""
        return E.strip_np(self._elem_out(pos))

    def _select(self, key, info=None):
        """-> (new_shape, new_idx, scalar?); info["fancy"] is set when an index array was used
        (numpy then returns a copy, not a view)"""
        if not isinstance(key, tuple):
            key = (key,)
        # expand Ellipsis / pad with full slices
        if _b.any(k is Ellipsis for k in key):
            i = next(i for i, k in enumerate(key) if k is Ellipsis)
            nfill = self.ndim - (len(key) - 1 - _b.sum(1 for k in key if k is None))
            key = key[:i] + (slice(None),) * nfill + key[i + 1:]
        nreal = _b.sum(1 for k in key if k is not None)
        if nreal > self.ndim:
            raise IndexError(
                f"too many indices for array: array is {self.ndim}-dimensional, but {nreal} were indexed"
            )
        key = key + (slice(None),) * (self.ndim - nreal)
        per_dim: List[List[int]] = []
        new_shape: List[int] = []
        dim = 0
        for k in key:
            if k is None:
                new_shape.append(1)
                continue
            n = self.shape[dim]
            if isinstance(k, slice):
                start, stop, step = k.start, k.stop, k.step
                start = None if start is None else _as_index(start)
                stop = None if stop is None else _as_index(stop)
                step = None if step is None else _as_index(step)
                rng = range(*slice(start, stop, step).indices(n))
                per_dim.append(list(rng))
                new_shape.append(len(rng))
            elif isinstance(k, (ndarray, list)):
                # one 1-D index array: a boolean mask (each symbolic element is decided, i.e.
                # forks) or a list of integer positions
                if info is None or info.get("fancy"):
                    raise UnsupportedInShim("fancy indexing (several index arrays / assignment target)")
                ka = k if isinstance(k, ndarray) else array(k)
                if ka.ndim != 1 or ka._structured:
                    raise UnsupportedInShim("fancy indexing with an index array of rank != 1")
                if ka.dtype.code == "b1":
                    if ka.shape[0] != n:
                        raise IndexError(f"boolean index did not match indexed array along dimension {dim}; dimension is {n} but corresponding boolean dimension is {ka.shape[0]}")
                    sel = [j for j in range(n) if bool(ka._buf[ka._idx[j]])]
                elif ka.dtype.code[0] in "iu":
                    sel = []
                    for j in range(ka.shape[0]):
                        i = _as_index(ka._buf[ka._idx[j]])
                        if i < -n or i >= n:
                            raise IndexError(f"index {i} is out of bounds for axis {dim} with size {n}")
                        sel.append(i + n if i < 0 else i)
                else:
                    raise IndexError("arrays used as indices must be of integer (or boolean) type")
                info["fancy"] = True
                per_dim.append(sel)
                new_shape.append(len(sel))
            else:
                try:
                    i = _as_index(k)
                except TypeError:
                    raise IndexError(
                        "only integers, slices (`:`), ellipsis (`...`), numpy.newaxis (`None`) and "
                        "integer or boolean arrays are valid indices"
                    )
                if i < -n or i >= n:
                    raise IndexError(f"index {i} is out of bounds for axis {dim} with size {n}")
                if i < 0:
                    i += n
                per_dim.append([i])
            dim += 1
        strides = []
        s = 1
        for d in reversed(self.shape):
            strides.append(s)
            s *= d
        strides.reverse()
        new_idx = [
            self._idx[_b.sum(i * st for i, st in zip(combo, strides))]
            for combo in itertools.product(*per_dim)
        ] if per_dim else list(self._idx)
        scalar = _b.all(not isinstance(k, slice) and k is not None for k in key) and len(key) >= self.ndim
        return tuple(new_shape), new_idx, scalar and not new_shape

    def __getitem__(self, key):
        if isinstance(key, str):
            return self._field_view(key)
        info = {}
        shape, idx, scalar = self._select(key, info)
        if scalar:
            return self._elem_out(idx[0])
        if info.get("fancy"):
            nl = self.dtype.nleaves if self._structured else 1
            if self._structured:
                buf = [self._buf[p + j] for p in idx for j in range(nl)]
                return ndarray._mk(shape, self.dtype, buf, [i * nl for i in range(len(idx))], True)
            return ndarray._mk(shape, self.dtype, [self._buf[p] for p in idx], list(range(len(idx))), True)
        return ndarray._mk(shape, self.dtype, self._buf, idx, self._writeable)

    def _field_view(self, name: str) -> "ndarray":
        if not self._structured:
            raise IndexError("only integers, slices (`:`), ellipsis (`...`), numpy.newaxis (`None`) and integer or boolean arrays are valid indices")
        for fname, d, _, leaf in self.dtype.fields_list:
            if fname == name:
                if d._base is not None:
                    idx = [p + leaf + j for p in self._idx for j in range(d.nleaves)]
                    return ndarray._mk(self.shape + d.shape, d._base, self._buf, idx, self._writeable)
                return ndarray._mk(self.shape, d, self._buf, [p + leaf for p in self._idx], self._writeable)
        raise ValueError(f"no field of name {name}")

    def __setitem__(self, key, value) -> None:
        if not self._writeable:
            raise ValueError("assignment destination is read-only")
        if isinstance(key, str):
            target = self._field_view(key)
        else:
            shape, idx, scalar = self._select(key, {})
            target = ndarray._mk(shape, self.dtype, self._buf, idx, True)
        target._assign(value)

    def _assign(self, value) -> None:
        if self._structured:
            if isinstance(value, ndarray) and value._structured:
                if value.dtype != self.dtype:
                    raise UnsupportedInShim("assignment between different structured dtypes")
                src = _broadcast_idx(value, self.shape)
                n = self.dtype.nleaves
                vals = [[value._buf[p + j] for j in range(n)] for p in src]
                for p, rec in zip(self._idx, vals):
                    for j in range(n):
                        self._buf[p + j] = rec[j]
                return
            if isinstance(value, Record):
                vals = value.leaves()
                for p in self._idx:
                    for j, v in enumerate(vals):
                        self._buf[p + j] = v
                return
            if isinstance(value, tuple):
                rec = _record_leaves(value, self.dtype)
                for p in self._idx:
                    for j, v in enumerate(rec):
                        self._buf[p + j] = v
                return
            if isinstance(value, list):
                if len(self.shape) != 1 or len(value) != self.shape[0]:
                    raise UnsupportedInShim("structured list assignment of mismatched shape")
                for p, item in zip(self._idx, value):
                    rec = _record_leaves(item, self.dtype)
                    for j, v in enumerate(rec):
                        self._buf[p + j] = v
                return
            if isinstance(value, (float, int, SFloat, _rnp.floating, _rnp.integer)) and not isinstance(value, bool):
                # a scalar is broadcast to every field of every record
                codes = self.dtype.leaf_codes()
                rec = [to_leaf(leaf_in(value, c), c) for c in codes]
                for p in self._idx:
                    for j, v in enumerate(rec):
                        self._buf[p + j] = v
                return
            raise UnsupportedInShim(f"structured assignment from {type(value).__name__}")
        code = self.dtype.code
        if code == "O" and self.shape == ():
            self._buf[self._idx[0]] = value
            return
        if isinstance(value, (list, tuple)) and code != "O":
            value = array(value)
        if isinstance(value, ndarray):
            if value._structured:
                raise UnsupportedInShim("assign structured to plain")
            src = _broadcast_idx(value, self.shape)
            vcode = value.dtype.code
            vals = [_leaf_as_value(value._buf[p], vcode) for p in src]
            for p, v in zip(self._idx, vals):
                self._buf[p] = to_leaf(v, code, from_python=False)
            return
        if code == "O":
            if self.shape == ():
                self._buf[self._idx[0]] = value
                return
            if isinstance(value, (list, tuple)):
                raise UnsupportedInShim("sequence assignment into object array")
            for p in self._idx:
                self._buf[p] = value
            return
        leaf = to_leaf(leaf_in(value, code), code)
        for p in self._idx:
            self._buf[p] = leaf

    # iteration ------------------------------------------------------------------
    def __iter__(self):
        if not self.shape:
            raise TypeError("iteration over a 0-d array")
        for i in range(self.shape[0]):
            yield self[i]

    # conversions --------------------------------------------------------------------
    def astype(self, dt, order="K", casting="unsafe", subok=True, copy: bool = True) -> "ndarray":
        dt = dtype(dt)
        if dt._base is not None:
            raise UnsupportedInShim("astype to sub-array dtype")
        if not copy and dt == self.dtype:
            return self
        if not self._structured and dt.fields_list is None and self.ndim >= 2 and order in ("K", "A", "F") and (
                order == "F" or (self._contig(True) and not self._contig(False))):
            # the result keeps a column-major memory layout
            code = self.dtype.code
            fidx = self._order_idx(True)
            buf = [to_leaf(_leaf_as_value(self._buf[p], code), dt.code, from_python=False) for p in fidx]
            where = {p: i for i, p in enumerate(fidx)}
            return ndarray._mk(self.shape, dt, buf, [where[p] for p in self._idx])
        if self._structured or dt.fields_list is not None:
            if dt != self.dtype:
                raise UnsupportedInShim("astype between structured and other dtypes")
            n = dt.nleaves
            buf = []
            idx = []
            for p in self._idx:
                idx.append(len(buf))
                buf.extend(self._buf[p:p + n])
            return ndarray._mk(self.shape, dt, buf, idx)
        code = self.dtype.code
        buf = [to_leaf(_leaf_as_value(self._buf[p], code), dt.code, from_python=False) for p in self._idx]
        return ndarray._mk(self.shape, dt, buf, list(range(len(buf))))

    def copy(self, order="C") -> "ndarray":
        return self.astype(self.dtype, order=order)

    def tobytes(self, order="C"):
        out: list = []
        if order not in ("C", "F", "A", "K", None):
            raise ValueError("order must be one of 'C', 'F', 'A', or 'K'")
        if order == "F" or (order == "A" and self.ndim >= 2 and self._contig(True) and not self._contig(False)):
            if self._structured:
                raise UnsupportedInShim("Fortran-order bytes of a structured array")
            c = self.dtype.code
            big = self.dtype.order == ">"
            for p in self._order_idx(True):
                b = leaf_bytes(self._buf[p], c)
                out.extend(reversed(b) if big else b)
            return mkbytes(out)
        if self._structured:
            codes = self.dtype.leaf_codes()
            orders = self.dtype.leaf_orders()
            for p in self._idx:
                for j, c in enumerate(codes):
                    b = leaf_bytes(self._buf[p + j], c)
                    out.extend(reversed(b) if orders[j] == ">" else b)
        else:
            c = self.dtype.code
            big = self.dtype.order == ">"
            for p in self._idx:
                b = leaf_bytes(self._buf[p], c)
                out.extend(reversed(b) if big else b)
        return mkbytes(out)

    def transpose(self, *axes) -> "ndarray":
        if len(axes) == 1 and isinstance(axes[0], (tuple, list)):
            axes = tuple(axes[0])
        if not axes or axes == (None,):
            perm = tuple(reversed(range(self.ndim)))
        else:
            perm = tuple(a + self.ndim if a < 0 else a for a in (_as_index(a) for a in axes))
            if sorted(perm) != list(range(self.ndim)):
                raise ValueError("axes don't match array")
        if self.ndim < 2:
            return ndarray._mk(self.shape, self.dtype, self._buf, list(self._idx), self._writeable)
        new_shape = tuple(self.shape[p] for p in perm)
        strides = []
        s = 1
        for d in reversed(self.shape):
            strides.append(s)
            s *= d
        strides.reverse()
        pstr = [strides[p] for p in perm]
        idx = [
            self._idx[_b.sum(i * st for i, st in zip(combo, pstr))]
            for combo in itertools.product(*[range(d) for d in new_shape])
        ]
        return ndarray._mk(new_shape, self.dtype, self._buf, idx, self._writeable)

    def reshape(self, *shape, order="C") -> "ndarray":
        if len(shape) == 1 and isinstance(shape[0], (tuple, list)):
            shape = tuple(shape[0])
        shape = [_as_index(s) for s in shape]
        if shape.count(-1) == 1:
            rest = _prod(s for s in shape if s != -1)
            shape[shape.index(-1)] = self.size // rest if rest else 0
        if _prod(shape) != self.size:
            raise ValueError(f"cannot reshape array of size {self.size} into shape {tuple(shape)}")
        return ndarray._mk(tuple(shape), self.dtype, self._buf, list(self._idx), self._writeable)

    def flatten(self, order="C") -> "ndarray":
        c = self.copy()
        return ndarray._mk((self.size,), c.dtype, c._buf, c._idx)

    def ravel(self, order="C") -> "ndarray":
        return ndarray._mk((self.size,), self.dtype, self._buf, list(self._idx), self._writeable)

    def fill(self, value) -> None:
        self[...] = value

    def squeeze(self, axis=None):
        return squeeze(self, axis)

    def tolist(self):
        if not self.shape:
            return self._py_out(self._idx[0])
        return [x.tolist() if isinstance(x, ndarray) else E.strip_np(x) for x in self]

    def item(self, *a):
        if self.size != 1:
            raise ValueError("can only convert an array of size 1 to a Python scalar")
        return self._py_out(self._idx[0])

    def view(self, *a, **k):
        raise UnsupportedInShim("ndarray.view")

    def __array__(self, *a, **k):
        raise UnsupportedInShim("conversion of a symnp array to a real numpy array")

    def __index__(self):
        if self.size == 1 and self.dtype.kind in "iu":
            return operator.index(self._buf[self._idx[0]])
        raise TypeError("only integer scalar arrays can be converted to a scalar index")

    def __int__(self):
        if self.size == 1:
            return int(self._py_out(self._idx[0]))
        raise TypeError("only length-1 arrays can be converted to Python scalars")

    def __float__(self):
        if self.size == 1:
            return float(self._elem_out(self._idx[0]))
        raise TypeError("only length-1 arrays can be converted to Python scalars")

    # comparisons -------------------------------------------------------------------
    def _cmp_array(self, other, negate: bool) -> "ndarray":
        if self._structured:
            raise UnsupportedInShim("== on structured arrays")
        if other is None and self.dtype.code != "O":
            vals = [negate] * self.size
            return ndarray._mk(self.shape, _scalar_dt("b1"), vals, list(range(len(vals))))
        if isinstance(other, (list, tuple)):
            other = array(other)
        if isinstance(other, ndarray):
            if other._structured:
                raise UnsupportedInShim("== on structured arrays")
            shape = _broadcast_shapes(self.shape, other.shape)
            ai = _broadcast_idx(self, shape)
            bi = _broadcast_idx(other, shape)
            code = _common_code(self.dtype.code, other.dtype.code)
            out = []
            for p, q in zip(ai, bi):
                a = to_leaf(_leaf_as_value(self._buf[p], self.dtype.code), code, False)
                b = to_leaf(_leaf_as_value(other._buf[q], other.dtype.code), code, False)
                out.append(leaf_eq(a, b, code))
        else:
            shape = self.shape
            code = self.dtype.code
            if code == "O":
                out = [leaf_eq(self._buf[p], other, "O") for p in self._idx]
            else:
                ov = leaf_in(other, code)
                if isinstance(ov, FloatLeaf) and code[0] in "iu":
                    raise UnsupportedInShim("int array == float scalar")
                if isinstance(ov, (float, _rnp.floating)) and code[0] in "iu":
                    code = "f8"
                try:
                    b = to_leaf(ov, code)
                except (TypeError, ValueError):
                    vals = [negate] * self.size
                    return ndarray._mk(self.shape, _scalar_dt("b1"), vals, list(range(len(vals))))
                out = [leaf_eq(to_leaf(_leaf_as_value(self._buf[p], self.dtype.code), code, False), b, code) for p in self._idx]
        if negate:
            out = [(not x) if isinstance(x, bool) else z3.Not(x) for x in out]
        leaves = [x if isinstance(x, bool) else mkbool(x) for x in out]
        return ndarray._mk(shape, _scalar_dt("b1"), leaves, list(range(len(leaves))))

    def _ord_array(self, other, op):
        """elementwise <, <=, >, >= for integer arrays (ordering of symbolic floats is not modelled)"""
        o = asarray(other)
        if self._structured or o._structured:
            raise TypeError("'<' not supported between structured arrays")
        if self.dtype.code[0] not in "iub" or o.dtype.code[0] not in "iub":
            raise UnsupportedInShim("ordering comparison of float arrays")
        shp = _broadcast_shapes(self.shape, o.shape)
        ai, bi = _broadcast_idx(self, shp), _broadcast_idx(o, shp)
        vals = []
        for pa, pb in zip(ai, bi):
            a, b = self._buf[pa], o._buf[pb]
            a = (1 if bool(a) else 0) if self.dtype.code == "b1" else a
            b = (1 if bool(b) else 0) if o.dtype.code == "b1" else b
            r = op(a, b)
            vals.append(r if isinstance(r, (bool, SBool)) else bool(r))
        return ndarray._mk(shp, _scalar_dt("b1"), vals, list(range(len(vals))))

    def __lt__(self, other):
        return self._ord_array(other, operator.lt)

    def __le__(self, other):
        return self._ord_array(other, operator.le)

    def __gt__(self, other):
        return self._ord_array(other, operator.gt)

    def __ge__(self, other):
        return self._ord_array(other, operator.ge)

    def __eq__(self, other):
        return self._cmp_array(other, False)

    def __ne__(self, other):
        return self._cmp_array(other, True)

    __hash__ = None  # type: ignore

    def all(self, axis=None):
        if axis is not None:
            return _reduce_axis(self, axis, _truthy_all)
        return _truthy_all([self._buf[p] for p in self._idx], self.dtype.code)

    def any(self, axis=None):
        if axis is not None:
            return _reduce_axis(self, axis, _truthy_any)
        return _truthy_any([self._buf[p] for p in self._idx], self.dtype.code)

    def sum(self, axis=None, dtype=None):
        return sum(self, axis=axis, dtype=dtype)

    def nonzero(self):
        return nonzero(self)

    def cumsum(self, axis=None, dtype=None):
        return cumsum(self, axis=axis, dtype=dtype)

    def __bool__(self) -> bool:
        if self.size == 1:
            return bool(_truthy_all([self._buf[self._idx[0]]], self.dtype.code))
        if self.size == 0:
            return False
        raise ValueError(
            "The truth value of an array with more than one element is ambiguous. Use a.any() or a.all()"
        )

    def _boolop(self, other, f):
        o = asarray(other)
        if self.dtype.code != "b1" or o.dtype.code != "b1":
            raise UnsupportedInShim("bitwise operator on non-bool arrays")
        return f(self, o)

    def __and__(self, other):
        return self._boolop(other, logical_and)

    __rand__ = __and__

    def __or__(self, other):
        return self._boolop(other, logical_or)

    __ror__ = __or__

    def __xor__(self, other):
        return self._boolop(other, logical_xor)

    __rxor__ = __xor__

    def __invert__(self):
        if self.dtype.code != "b1":
            raise UnsupportedInShim("~ on non-bool array")
        vals = [E.s_not(self._buf[p]) for p in self._idx]
        return ndarray._mk(self.shape, self.dtype, vals, list(range(len(vals))))

    # arithmetic (only what harnesses / docs examples need) ----------------------------
    def _arith(self, other, op):
        raise UnsupportedInShim("array arithmetic")

    __add__ = __radd__ = __sub__ = __rsub__ = __mul__ = __rmul__ = __truediv__ = _arith

    def __repr__(self) -> str:
        return f"<symnp.ndarray shape={self.shape} dtype={self.dtype!r}>"

    __str__ = __repr__

    def __format__(self, spec) -> str:
        return repr(self)

    # leaves for harness-side inspection ------------------------------------------------
    def leaves(self) -> list:
        if self._structured:
            n = self.dtype.nleaves
            return [self._buf[p + j] for p in self._idx for j in range(n)]
        return [self._buf[p] for p in self._idx]


class recarray(ndarray):
    pass


class ShapeOnlyArray(ndarray):
    """An ndarray whose extents are symbolic integers and whose contents are
    irrelevant (C19: constructors only look at .shape).  Any access to the data first
    concretises the extents through the solver (each feasible extent is a path)."""

    @staticmethod
    def make(shape, dt="<f4"):
        a = object.__new__(ShapeOnlyArray)
        a.shape = tuple(shape)
        a.dtype = dtype(dt)
        a._buf = None
        a._idx = None
        a._writeable = True
        return a

    def _materialize(self):
        if self._buf is None:
            shp = tuple(_as_index(s) for s in self.shape)
            self.shape = shp
            n = _prod(shp)
            if n > 4096:
                raise UnsupportedInShim("materialising a large shape-only array")
            self._buf = [0] * n
            self._idx = list(range(n))

    @property
    def ndim(self):
        return len(self.shape)

    def __len__(self):
        if not self.shape:
            raise TypeError("len() of unsized object")
        return _as_index(self.shape[0])

    def __getitem__(self, key):
        self._materialize()
        return ndarray.__getitem__(ndarray._mk(self.shape, self.dtype, self._buf, self._idx), key)

    def __getattr__(self, name):
        if name.startswith("__"):
            raise AttributeError(name)
        self._materialize()
        return getattr(ndarray._mk(self.shape, self.dtype, self._buf, self._idx), name)


def _leaf_as_value(x, code: str):
    if code[0] == "f":
        return FloatLeaf(_fw(code), x)
    return x


def _common_code(a: str, b: str) -> str:
    if a == b:
        return a
    if "O" in (a, b):
        return "O"
    if a[0] == "f" or b[0] == "f":
        fa = _fw(a) if a[0] == "f" else 0
        fb = _fw(b) if b[0] == "f" else 0
        ia = _fw(a) if a[0] != "f" else 0
        ib = _fw(b) if b[0] != "f" else 0
        if max(fa, fb) == 64 or max(ia, ib) >= 32:
            return "f8"
        if max(ia, ib) >= 16 and max(fa, fb) <= 32:
            return "f8" if max(ia, ib) > 16 else "f4"
        return "f4"
    if a == "b1":
        return b
    if b == "b1":
        return a
    return "i8"


def _truthy_all(leaves, code):
    conj = []
    for x in leaves:
        if code == "b1":
            if isinstance(x, SBool):
                conj.append(x.e)
            elif not x:
                return False
        elif code[0] == "f":
            if isinstance(x, int):
                if (x & ((1 << (_fw(code) - 1)) - 1)) == 0:
                    return False
            else:
                conj.append(z3.Not(SFloat(_fw(code), x).iszero_e()))
        elif code == "O":
            if not x:
                return False
        else:
            r = x != 0
            if isinstance(r, SBool):
                conj.append(r.e)
            elif not r:
                return False
    if not conj:
        return True
    return mkbool(z3.And(*conj))


def _truthy_any(leaves, code):
    return E.s_not(_truthy_all_neg(leaves, code))


def _truthy_all_neg(leaves, code):
    """all(not x)"""
    conj = []
    for x in leaves:
        t = _truthy_all([x], code)
        if isinstance(t, SBool):
            conj.append(z3.Not(t.e))
        elif t:
            return False
    if not conj:
        return True
    return mkbool(z3.And(*conj))


def _broadcast_shapes(a: tuple, b: tuple) -> tuple:
    n = max(len(a), len(b))
    pa = (1,) * (n - len(a)) + tuple(a)
    pb = (1,) * (n - len(b)) + tuple(b)
    out = []
    for x, y in zip(pa, pb):
        if x == y or y == 1:
            out.append(x)
        elif x == 1:
            out.append(y)
        else:
            raise ValueError(f"operands could not be broadcast together with shapes {a} {b} ")
    return tuple(out)


def _broadcast_idx(src: ndarray, shape: tuple) -> list:
    """Flat list of src leaf positions for each element of `shape` (numpy broadcasting
    of src into shape)."""
    if src.shape == tuple(shape):
        return list(src._idx)
    if len(src.shape) > len(shape):
        # numpy allows leading 1-dims to be dropped in assignment
        lead = src.shape[: len(src.shape) - len(shape)]
        if _b.all(d == 1 for d in lead):
            return _broadcast_idx(ndarray._mk(src.shape[len(lead):], src.dtype, src._buf, src._idx), shape)
        raise ValueError(f"could not broadcast input array from shape {src.shape} into shape {tuple(shape)}")
    ps = (1,) * (len(shape) - len(src.shape)) + tuple(src.shape)
    for s, t in zip(ps, shape):
        if s != t and s != 1:
            raise ValueError(f"could not broadcast input array from shape {src.shape} into shape {tuple(shape)}")
    strides = []
    st = 1
    for d in reversed(ps):
        strides.append(st)
        st *= d
    strides.reverse()
    out = []
    for combo in itertools.product(*[range(d) for d in shape]):
        off = _b.sum((0 if ps[k] == 1 else i) * strides[k] for k, i in enumerate(combo))
        out.append(src._idx[off])
    return out


def _record_leaves(item, dt: dtype) -> list:
    if isinstance(item, Record):
        return item.leaves()
    if not isinstance(item, tuple) or len(item) != len(dt.fields_list):
        raise UnsupportedInShim("structured element must be a tuple with one entry per field")
    out = []
    for v, (name, d, _, _) in zip(item, dt.fields_list):
        if d._base is not None:
            sub = array(v, dtype=d._base)
            if sub.shape != d.shape:
                raise ValueError("could not assign tuple of length to structure field")
            out.extend(sub.leaves())
        else:
            out.append(to_leaf(leaf_in(v, d.code), d.code))
    return out


# ---------------------------------------------------------------------------------
# constructors
# ---------------------------------------------------------------------------------


def _norm_shape(shape) -> tuple:
    if isinstance(shape, (tuple, list)):
        return tuple(_as_index(s) for s in shape)
    return (_as_index(shape),)


_EMPTY_COUNTER = itertools.count()
EMPTY_HOOK = None  # set by the Inputs object: name -> leaf bits for np.empty contents


def _fresh_leaf(code: str):
    if code == "O":
        return None
    n = next(_EMPTY_COUNTER)
    if not E.active():
        if code[0] == "f":
            return 0x41414141 if code == "f4" else 0x4141414141414141
        if code == "b1":
            return True
        return _wrap_int(0x41414141, code)
    name = f"np.empty#{E.fresh_name('u')}"
    if EMPTY_HOOK is not None:
        return EMPTY_HOOK(code)
    if code[0] == "f":
        return z3.BitVec(name, _fw(code))
    if code == "b1":
        return SBool(z3.Bool(name))
    return E.bv_from_field(z3.BitVec(name, _fw(code)), code[0] == "i")


def empty(shape, dtype=float, order="C") -> ndarray:
    dt = globals()["dtype"](dtype)
    shape = _norm_shape(shape)
    if _b.any(s < 0 for s in shape):
        raise ValueError("negative dimensions are not allowed")
    if dt._base is not None:
        shape = shape + dt.shape
        dt = dt._base
    n = _prod(shape)
    if dt.fields_list is not None:
        codes = dt.leaf_codes()
        buf = []
        idx = []
        for _ in range(n):
            idx.append(len(buf))
            buf.extend(_fresh_leaf(c) for c in codes)
        return ndarray._mk(shape, dt, buf, idx)
    buf = [_fresh_leaf(dt.code) for _ in range(n)]
    return ndarray._mk(shape, dt, buf, list(range(n)))


def zeros(shape, dtype=float, order="C") -> ndarray:
    dt = globals()["dtype"](dtype)
    shape = _norm_shape(shape)
    if dt._base is not None:
        shape = shape + dt.shape
        dt = dt._base
    n = _prod(shape)
    if dt.fields_list is not None:
        raise UnsupportedInShim("zeros with structured dtype")
    z = 0 if dt.code != "b1" else False
    return ndarray._mk(shape, dt, [z] * n, list(range(n)))


def ones(shape, dtype=float, order="C") -> ndarray:
    a = zeros(shape, dtype)
    a[...] = 1
    return a


def full(shape, fill_value, dtype=None, order="C") -> ndarray:
    if dtype is None:
        dtype = array(fill_value).dtype
    a = zeros(shape, dtype)
    a[...] = fill_value
    return a


def _infer(obj):
    """-> (shape, flat list of scalar values, code or None)"""
    if isinstance(obj, ndarray):
        if obj._structured:
            raise UnsupportedInShim("np.array over structured arrays")
        return obj.shape, [_leaf_as_value(obj._buf[p], obj.dtype.code) for p in obj._idx], obj.dtype.code
    if isinstance(obj, (list, tuple)):
        if len(obj) == 0:
            return (0,), [], None
        subs = [_infer(x) for x in obj]
        shp0 = subs[0][0]
        if _b.any(s[0] != shp0 for s in subs):
            raise ValueError(
                "setting an array element with a sequence. The requested array has an inhomogeneous "
                f"shape after {1} dimensions. The detected shape was ({len(obj)},) + inhomogeneous part."
            )
        code = None
        for s in subs:
            code = s[2] if code is None else (_common_code(code, s[2]) if s[2] is not None else code)
        flat = []
        for s in subs:
            flat.extend(s[1])
        return (len(obj),) + shp0, flat, code
    # scalar
    v = obj
    if isinstance(v, SFloat):
        return (), [leaf_in(v, "f8")], "f4" if v.w == 32 else "f8"
    if isinstance(v, (bool, _rnp.bool_)):
        return (), [bool(v)], "b1"
    if isinstance(v, SBool):
        return (), [v], "b1"
    if isinstance(v, int) or isinstance(v, E.SymIntBase):
        return (), [v], "i8"
    if isinstance(v, _rnp.integer):
        return (), [int(v)], v.dtype.str[1:]
    if isinstance(v, _rnp.floating):
        return (), [leaf_in(v, "f8")], v.dtype.str[1:]
    if isinstance(v, float):
        return (), [v], "f8"
    if isinstance(v, Record):
        raise UnsupportedInShim("np.array over records")
    return (), [v], "O"


def array(obj, dtype=None, copy=True, ndmin=0) -> ndarray:
    dt = None if dtype is None else globals()["dtype"](dtype)
    if dt is not None and dt._base is not None:
        raise UnsupportedInShim("np.array with sub-array dtype")
    if dt is not None and dt.fields_list is not None:
        if isinstance(obj, ndarray):
            return obj.astype(dt)
        if isinstance(obj, tuple):
            rec = _record_leaves(obj, dt)
            return ndarray._mk((), dt, rec, [0])
        if isinstance(obj, list):
            buf: list = []
            idx = []
            for item in obj:
                idx.append(len(buf))
                buf.extend(_record_leaves(item, dt))
            return ndarray._mk((len(obj),), dt, buf, idx)
        raise UnsupportedInShim("np.array(structured) from scalar")
    if isinstance(obj, ndarray) and obj._structured:
        return obj.astype(obj.dtype)
    shape, flat, code = _infer(obj)
    if dt is None:
        code = code or "f8"
        dt = _scalar_dt(code)
    tgt = dt.code
    from_python = not isinstance(obj, ndarray)
    buf = [to_leaf(leaf_in(v, tgt), tgt, from_python=from_python) for v in flat]
    return ndarray._mk(shape, dt, buf, list(range(len(buf))))


def asarray(obj, dtype=None) -> ndarray:
    if isinstance(obj, ndarray) and (dtype is None or globals()["dtype"](dtype) == obj.dtype):
        return obj
    return array(obj, dtype=dtype)


def frombuffer(buffer, dtype=float, count=-1, offset=0) -> ndarray:
    dt = globals()["dtype"](dtype)
    items = items_of(buffer)
    if offset:
        items = items[offset:]
    isz = dt.itemsize
    if isz == 0:
        raise ValueError("itemsize cannot be zero in type")
    if count < 0:
        if len(items) % isz:
            raise ValueError("buffer size must be a multiple of element size")
        n = len(items) // isz
    else:
        n = count
        if len(items) < n * isz:
            raise ValueError("buffer is smaller than requested size")
    codes = dt.leaf_codes()
    orders = dt.leaf_orders()
    buf = []
    pos = 0
    for _ in range(n):
        for c, o in zip(codes, orders):
            k = _SCALAR_SIZES[c]
            chunk = items[pos:pos + k]
            buf.append(leaf_from_bytes(list(reversed(chunk)) if o == ">" else chunk, c))
            pos += k
    if dt.fields_list is not None:
        nl = dt.nleaves
        return ndarray._mk((n,), dt, buf, [i * nl for i in range(n)], writeable=False)
    if dt._base is not None:
        return ndarray._mk((n,) + dt.shape, dt._base, buf, list(range(len(buf))), writeable=False)
    return ndarray._mk((n,), dt, buf, list(range(n)), writeable=False)


# ---------------------------------------------------------------------------------
# functions
# ---------------------------------------------------------------------------------


def all(a, axis=None):  # noqa: A001
    if isinstance(a, ndarray):
        return a.all(axis)
    if isinstance(a, (bool, SBool)):
        return a
    if isinstance(a, (list, tuple)):
        return array(a).all()
    return bool(a)


def any(a, axis=None):  # noqa: A001
    if isinstance(a, ndarray):
        return a.any(axis)
    if isinstance(a, (bool, SBool)):
        return a
    if isinstance(a, (list, tuple)):
        return array(a).any()
    return bool(a)


def isnan(x):
    if isinstance(x, ndarray):
        if x.dtype.code[0] != "f":
            vals = [False] * x.size
        else:
            w = _fw(x.dtype.code)
            vals = [_isnan_leaf(x._buf[p], w) for p in x._idx]
        return ndarray._mk(x.shape, _scalar_dt("b1"), vals, list(range(len(vals))))
    if isinstance(x, SFloat):
        return mkbool(x.isnan_e())
    return bool(_rnp.isnan(x))


def _isnan_leaf(b, w):
    if isinstance(b, int):
        f = E.bits_to_float(b, w)
        return bool(f != f)
    return mkbool(SFloat(w, b).isnan_e())


def _invalid_leaf(b, w):
    """not isfinite"""
    if isinstance(b, int):
        return not bool(_rnp.isfinite(E.bits_to_float(b, w)))
    f = SFloat(w, b)
    ex, _ = f._exp_frac
    return mkbool(ex == (1 << ex.size()) - 1)


def isfinite(x):
    if isinstance(x, ndarray):
        if x.dtype.code == "O":
            raise TypeError(
                "ufunc 'isfinite' not supported for the input types, and the inputs could not be safely "
                "coerced to any supported types according to the casting rule ''safe''"
            )
        if x.dtype.code[0] != "f":
            vals = [True] * x.size
        else:
            w = _fw(x.dtype.code)
            vals = [E.s_not(_invalid_leaf(x._buf[p], w)) for p in x._idx]
        return ndarray._mk(x.shape, _scalar_dt("b1"), vals, list(range(len(vals))))
    if isinstance(x, SFloat):
        ex, _ = x._exp_frac
        return mkbool(ex != (1 << ex.size()) - 1)
    return bool(_rnp.isfinite(x))


def concatenate(arrays, axis=0, dtype=None):
    arrs = [asarray(a) for a in arrays]
    if not arrs:
        raise ValueError("need at least one array to concatenate")
    if _b.any(a._structured for a in arrs):
        if axis != 0 or _b.any(a.dtype != arrs[0].dtype or a.ndim != 1 for a in arrs):
            raise UnsupportedInShim("concatenate of structured arrays")
        n = arrs[0].dtype.nleaves
        buf, idx = [], []
        for a in arrs:
            for p in a._idx:
                idx.append(len(buf))
                buf.extend(a._buf[p:p + n])
        return ndarray._mk((len(idx),), arrs[0].dtype, buf, idx)
    nd = arrs[0].ndim
    if nd == 0:
        raise ValueError("zero-dimensional arrays cannot be concatenated")
    if axis < 0:
        axis += nd
    code = arrs[0].dtype.code
    for a in arrs[1:]:
        if a.ndim != nd or _b.any(a.shape[k] != arrs[0].shape[k] for k in range(nd) if k != axis):
            raise ValueError("all the input array dimensions except for the concatenation axis must match exactly")
        code = _common_code(code, a.dtype.code)
    if dtype is not None:
        code = globals()["dtype"](dtype).code
    shape = list(arrs[0].shape)
    shape[axis] = _b.sum(a.shape[axis] for a in arrs)
    outer = _prod(shape[:axis])
    buf = []
    for o in range(outer):
        for a in arrs:
            inner = _prod(a.shape[axis:])
            for p in a._idx[o * inner:(o + 1) * inner]:
                buf.append(to_leaf(_leaf_as_value(a._buf[p], a.dtype.code), code, False))
    return ndarray._mk(tuple(shape), _scalar_dt(code), buf, list(range(len(buf))))


def stack(arrays, axis=0):
    arrs = [asarray(a) for a in arrays]
    if not arrs:
        raise ValueError("need at least one array to stack")
    if _b.any(a.shape != arrs[0].shape for a in arrs):
        raise ValueError("all input arrays must have the same shape")
    nd = arrs[0].ndim + 1
    if axis < 0:
        axis += nd
    exp = [a.reshape(a.shape[:axis] + (1,) + a.shape[axis:]) for a in arrs]
    return concatenate(exp, axis=axis)


def vstack(tup):
    arrs = [asarray(a) for a in tup]
    arrs = [a.reshape(1, a.shape[0]) if a.ndim == 1 else (a.reshape(1, 1) if a.ndim == 0 else a) for a in arrs]
    return concatenate(arrs, axis=0)


def hstack(tup):
    arrs = [asarray(a) for a in tup]
    arrs = [a.reshape(1) if a.ndim == 0 else a for a in arrs]
    return concatenate(arrs, axis=0 if arrs[0].ndim == 1 else 1)


def column_stack(tup):
    arrs = [asarray(a) for a in tup]
    arrs = [a.reshape(a.shape[0], 1) if a.ndim == 1 else a for a in arrs]
    return concatenate(arrs, axis=1)


def zeros_like(a, dtype=None):
    a = asarray(a)
    return zeros(a.shape, dtype or a.dtype)


def ones_like(a, dtype=None):
    a = asarray(a)
    return ones(a.shape, dtype or a.dtype)


def empty_like(a, dtype=None):
    a = asarray(a)
    return empty(a.shape, dtype or a.dtype)


def full_like(a, fill_value, dtype=None):
    a = asarray(a)
    return full(a.shape, fill_value, dtype or a.dtype)


def arange(*args, dtype=None):
    vals = list(range(*[_as_index(x) for x in args]))
    return array(vals, dtype=dtype or "<i8") if vals else zeros((0,), dtype or "<i8")


def isinf(x):
    if isinstance(x, ndarray):
        if x.dtype.code[0] != "f":
            vals = [False] * x.size
        else:
            w = _fw(x.dtype.code)
            vals = [(bool(_rnp.isinf(E.bits_to_float(x._buf[p], w))) if isinstance(x._buf[p], int) else mkbool(SFloat(w, x._buf[p]).isinf_e())) for p in x._idx]
        return ndarray._mk(x.shape, _scalar_dt("b1"), vals, list(range(len(vals))))
    if isinstance(x, SFloat):
        return mkbool(x.isinf_e())
    return bool(_rnp.isinf(x))


def copy(a):
    return asarray(a).copy()


def squeeze(a, axis=None):
    a = asarray(a)
    if axis is not None:
        raise UnsupportedInShim("squeeze(axis=)")
    return a.reshape(tuple(d for d in a.shape if d != 1))


def shape(a):
    return asarray(a).shape


def count_nonzero(a, axis=None):
    if axis is not None:
        raise UnsupportedInShim("count_nonzero(axis=)")
    a = asarray(a)
    n = 0
    for p in a._idx:
        t = _truthy_all([a._buf[p]], a.dtype.code)
        if bool(t):  # a symbolic element forks
            n += 1
    return n


def nan_to_num(x, copy=True, nan=0.0, posinf=None, neginf=None):
    """NaN -> nan (0.0), +inf/-inf -> largest/smallest finite value of the dtype."""
    a = asarray(x)
    if a._structured:
        raise UnsupportedInShim("nan_to_num on structured array")
    code = a.dtype.code
    if code[0] != "f":
        return a.copy()
    w = _fw(code)
    fi = _rnp.finfo("<f4" if w == 32 else "<f8")
    big = E.float_to_bits(float(fi.max) if posinf is None else float(posinf), w)
    small = E.float_to_bits(float(fi.min) if neginf is None else float(neginf), w)
    zero = E.float_to_bits(float(nan), w)
    out = []
    for p in a._idx:
        b = a._buf[p]
        if isinstance(b, int):
            with _rnp.errstate(all="ignore"):
                v = _rnp.nan_to_num(E.bits_to_float(b, w), nan=nan, posinf=posinf, neginf=neginf)
            out.append(E.float_to_bits(v, w) if w == 64 else int(_rnp.array(v, dtype="<f4").view("<u4")))
            continue
        f = SFloat(w, b)
        sign = z3.Extract(w - 1, w - 1, b) == 1
        r = z3.If(f.isnan_e(), z3.BitVecVal(zero, w),
                  z3.If(f.isinf_e(), z3.If(sign, z3.BitVecVal(small, w), z3.BitVecVal(big, w)), b))
        out.append(z3.simplify(r))
    res = ndarray._mk(a.shape, a.dtype, out, list(range(len(out))))
    if not a.shape:
        return res._elem_out(0)
    return res


def array_equal(a1, a2, equal_nan=False):
    try:
        a1, a2 = asarray(a1), asarray(a2)
    except Unsupported:
        raise
    except Exception:
        return False
    if a1.shape != a2.shape:
        return False
    if equal_nan:
        if a1._structured or a2._structured:
            raise UnsupportedInShim("array_equal on structured arrays")
        code = _common_code(a1.dtype.code, a2.dtype.code)
        if code[0] != "f":
            return (a1 == a2).all()
        w = _fw(code)
        conj = []
        for p, q in zip(a1._idx, a2._idx):
            x = to_leaf(_leaf_as_value(a1._buf[p], a1.dtype.code), code, False)
            y = to_leaf(_leaf_as_value(a2._buf[q], a2.dtype.code), code, False)
            e = leaf_eq(x, y, code)
            nx, ny = _isnan_leaf(x, w), _isnan_leaf(y, w)
            r = E.s_or(e if isinstance(e, bool) else SBool(e), E.s_and(nx, ny))
            if r is True:
                continue
            if r is False:
                return False
            conj.append(r.e)
        if not conj:
            return True
        return mkbool(z3.And(*conj))
    r = (a1 == a2).all()
    return r


_CLOSE = {}


def _close_fn(w):
    if w not in _CLOSE:
        s = z3.BitVecSort(w)
        _CLOSE[w] = z3.Function(f"isclose_f{w}", s, s, z3.BoolSort())
    return _CLOSE[w]


def far_e(a, b, w: int):
    """Sufficient condition for NOT isclose(a, b) with numpy's default tolerances:
    opposite signs and both magnitudes >= 1.  Then |a-b| = |a|+|b| >= 1+|b| which
    exceeds atol + rtol*|b| = 1e-8 + 1e-5*|b| (also when the subtraction overflows)."""
    bias = 127 if w == 32 else 1023
    fa, fb = SFloat(w, a), SFloat(w, b)
    ea, _ = fa._exp_frac
    eb, _ = fb._exp_frac
    sa, sb = z3.Extract(w - 1, w - 1, a), z3.Extract(w - 1, w - 1, b)
    return z3.And(sa != sb, z3.UGE(ea, bias), z3.UGE(eb, bias), z3.Not(fa.isnan_e()), z3.Not(fb.isnan_e()))


def close_e(a, b, w: int, equal_nan: bool):
    """Abstract np.isclose on float bits (DESIGN §1.3): identical non-NaN values are
    close; NaN is close only to NaN under equal_nan; an infinity is close only to the
    same infinity; for two distinct finite values the verdict is an uninterpreted
    predicate (numpy's tolerance arithmetic is trusted, not re-verified)."""
    fa, fb = SFloat(w, a), SFloat(w, b)
    na, nb = fa.isnan_e(), fb.isnan_e()
    ia, ib = fa.isinf_e(), fb.isinf_e()
    eq = fa.fp_eq_e(fb)
    fin = z3.And(z3.Not(na), z3.Not(nb), z3.Not(ia), z3.Not(ib))
    r = z3.Or(eq, z3.And(fin, z3.Not(far_e(a, b, w)), _close_fn(w)(a, b)))
    if equal_nan:
        r = z3.Or(r, z3.And(na, nb))
    return r


def isclose_leaf(a, b, code: str, equal_nan: bool):
    w = _fw(code)
    if isinstance(a, int) and isinstance(b, int):
        with _rnp.errstate(all="ignore"):
            return bool(_rnp.isclose(E.bits_to_float(a, w), E.bits_to_float(b, w), equal_nan=equal_nan))
    az = z3.BitVecVal(a, w) if isinstance(a, int) else a
    bz = z3.BitVecVal(b, w) if isinstance(b, int) else b
    return z3.simplify(close_e(az, bz, w, equal_nan))


def allclose(a, b, rtol=1e-05, atol=1e-08, equal_nan=False):
    a, b = asarray(a), asarray(b)
    if a.dtype.code == "O" or b.dtype.code == "O":
        raise TypeError(
            "ufunc 'isfinite' not supported for the input types, and the inputs could not be safely "
            "coerced to any supported types according to the casting rule ''safe''"
        )
    shape = _broadcast_shapes(a.shape, b.shape)
    ai, bi = _broadcast_idx(a, shape), _broadcast_idx(b, shape)
    code = _common_code(a.dtype.code, b.dtype.code)
    if code[0] != "f":
        code = "f8"
    conj = []
    for p, q in zip(ai, bi):
        x = to_leaf(_leaf_as_value(a._buf[p], a.dtype.code), code, False)
        y = to_leaf(_leaf_as_value(b._buf[q], b.dtype.code), code, False)
        r = isclose_leaf(x, y, code, equal_nan)
        if r is True:
            continue
        if r is False:
            return False
        conj.append(r)
    if not conj:
        return True
    return mkbool(z3.And(*conj))


# -- masked arrays -------------------------------------------------------------------


class MaskedArray:
    def __init__(self, data: ndarray, mask: ndarray) -> None:
        self.data = data
        self._mask = mask

    @property
    def mask(self):
        return self._mask

    @property
    def T(self):
        return MaskedArray(self.data.T, self._mask.T)

    @property
    def shape(self):
        return self.data.shape

    @property
    def size(self):
        return self.data.size

    @property
    def ndim(self):
        return self.data.ndim

    def __getitem__(self, key):
        d = self.data[key]
        m = self._mask[key]
        if isinstance(d, ndarray):
            return MaskedArray(d, m)
        raise UnsupportedInShim("scalar element of a masked array")

    def __len__(self):
        return len(self.data)


class _ma:
    MaskedArray = MaskedArray

    @staticmethod
    def masked_invalid(a, copy=True):
        a = asarray(a)
        if a._structured:
            raise UnsupportedInShim("masked_invalid on structured array")
        code = a.dtype.code
        if code == "O":
            raise TypeError(
                "ufunc 'isfinite' not supported for the input types, and the inputs could not be safely "
                "coerced to any supported types according to the casting rule ''safe''"
            )
        if code[0] == "f":
            w = _fw(code)
            vals = [_invalid_leaf(a._buf[p], w) for p in a._idx]
        else:
            vals = [False] * a.size
        mask = ndarray._mk(a.shape, _scalar_dt("b1"), vals, list(range(len(vals))))
        return MaskedArray(a, mask)

    @staticmethod
    def clump_unmasked(a):
        mask = getattr(a, "_mask", None)
        if mask is None:
            return [slice(0, a.size)]
        bits = [bool(mask._buf[p]) for p in mask._idx]  # each symbolic bit forks
        if not bits:
            raise IndexError("index 0 is out of bounds for axis 0 with size 0")
        out = []
        start = None
        for i, m in enumerate(bits):
            if not m and start is None:
                start = i
            elif m and start is not None:
                out.append(slice(start, i))
                start = None
        if start is not None:
            out.append(slice(start, len(bits)))
        return out

    @staticmethod
    def _mask_lines(a, rows, cols):
        a = a if isinstance(a, MaskedArray) else _ma.masked_invalid(a)
        if a.ndim != 2:
            raise NotImplementedError("mask_rowcols works for 2D arrays only.")
        m = a._mask
        r, c = m.shape
        bit = [[m._buf[m._idx[i * c + j]] for j in range(c)] for i in range(r)]
        rowm = [E.s_or(*bit[i]) for i in range(r)]
        colm = [E.s_or(*[bit[i][j] for i in range(r)]) for j in range(c)]
        vals = []
        for i in range(r):
            for j in range(c):
                parts = [bit[i][j]] if not (rows or cols) else []
                if rows:
                    parts.append(rowm[i])
                if cols:
                    parts.append(colm[j])
                vals.append(E.s_or(*parts))
        mask = ndarray._mk(m.shape, _scalar_dt("b1"), vals, list(range(len(vals))))
        return MaskedArray(a.data, mask)

    @staticmethod
    def mask_rows(a, axis=None):
        return _ma._mask_lines(a, True, False)

    @staticmethod
    def mask_cols(a, axis=None):
        return _ma._mask_lines(a, False, True)

    @staticmethod
    def mask_rowcols(a, axis=None):
        if axis == 0:
            return _ma._mask_lines(a, True, False)
        if axis in (1, -1):
            return _ma._mask_lines(a, False, True)
        return _ma._mask_lines(a, True, True)

    @staticmethod
    def clump_masked(a):
        raise UnsupportedInShim("clump_masked")


ma = _ma()


class _rec:
    recarray = recarray

    @staticmethod
    def fromarrays(arrayList, dtype=None, shape=None, formats=None, names=None, titles=None, aligned=False, byteorder=None):
        arrayList = [asarray(x) for x in arrayList]
        if shape is None:
            shape = arrayList[0].shape
        elif isinstance(shape, int):
            shape = (shape,)
        if dtype is None:
            raise UnsupportedInShim("rec.fromarrays without dtype")
        descr = globals()["dtype"](dtype)
        if len(descr) != len(arrayList):
            raise ValueError("mismatch between the number of fields and the number of arrays")
        d0 = descr[0].shape
        nn = len(d0)
        if nn > 0:
            shape = shape[:-nn]
        out = zeros(shape, "<i1")  # placeholder to get the geometry
        n = _prod(shape)
        nl = descr.nleaves
        codes = descr.leaf_codes()
        buf = [0 if c != "b1" else False for _ in range(n) for c in codes]
        res = ndarray._mk(tuple(shape), descr, buf, [i * nl for i in range(n)])
        for k, obj in enumerate(arrayList):
            nnk = descr[k].ndim
            testshape = obj.shape[: obj.ndim - nnk]
            name = descr.names[k]
            if testshape != tuple(shape):
                raise ValueError(f'array-shape mismatch in array {k} ("{name}")')
            res[name] = obj
        return res


rec = _rec()


class _typing:
    class NDArray:
        def __class_getitem__(cls, item):
            return cls

    DTypeLike = object
    ArrayLike = object


typing = _typing()


def errstate(**kw):
    import contextlib

    return contextlib.nullcontext()



# -- mask / index helpers (vectorised gap computations use these) ------------------------


def _truth_list(a) -> list:
    """Concrete truth value of every element (each symbolic element is decided: forks)."""
    a = asarray(a)
    if a._structured:
        raise UnsupportedInShim("truth of structured elements")
    return [bool(_truthy_all([a._buf[p]], a.dtype.code)) for p in a._idx]


def _int_array(vals, code="i8") -> ndarray:
    return ndarray._mk((len(vals),), _scalar_dt(code), list(vals), list(range(len(vals))))


def flatnonzero(a):
    t = _truth_list(asarray(a).ravel())
    return _int_array([i for i, v in enumerate(t) if v])


def nonzero(a):
    a = asarray(a)
    if a.ndim == 0:
        raise UnsupportedInShim("nonzero of a 0-d array")
    t = _truth_list(a)
    coords = [[] for _ in a.shape]
    for flat, v in enumerate(t):
        if not v:
            continue
        rem = flat
        idx = []
        for d in reversed(a.shape):
            idx.append(rem % d)
            rem //= d
        for k, i in enumerate(reversed(idx)):
            coords[k].append(i)
    return tuple(_int_array(c) for c in coords)


def argwhere(a):
    nz = nonzero(a)
    n = len(nz[0]._idx)
    vals = [nz[k]._buf[nz[k]._idx[i]] for i in range(n) for k in range(len(nz))]
    return ndarray._mk((n, len(nz)), _scalar_dt("i8"), vals, list(range(len(vals))))


def where(condition, x=None, y=None):
    if x is None and y is None:
        return nonzero(condition)
    if x is None or y is None:
        raise ValueError("either both or neither of x and y should be given")
    c = asarray(condition)
    xa, ya = asarray(x), asarray(y)
    code = _common_code(xa.dtype.code, ya.dtype.code) if xa.dtype.code != ya.dtype.code else xa.dtype.code
    shp = _broadcast_shapes(_broadcast_shapes(c.shape, xa.shape), ya.shape)
    ci, xi, yi = _broadcast_idx(c, shp), _broadcast_idx(xa, shp), _broadcast_idx(ya, shp)
    out = []
    for pc, px, py in zip(ci, xi, yi):
        t = bool(_truthy_all([c._buf[pc]], c.dtype.code))  # symbolic conditions fork
        src, sp = (xa, px) if t else (ya, py)
        out.append(to_leaf(leaf_in(_leaf_as_value(src._buf[sp], src.dtype.code), code), code, from_python=False))
    return ndarray._mk(shp, _scalar_dt(code), out, list(range(len(out))))


def _bool_binop(a, b, f):
    a, b = asarray(a), asarray(b)
    shp = _broadcast_shapes(a.shape, b.shape)
    ai, bi = _broadcast_idx(a, shp), _broadcast_idx(b, shp)
    vals = []
    for pa, pb in zip(ai, bi):
        ta = _truthy_all([a._buf[pa]], a.dtype.code)
        tb = _truthy_all([b._buf[pb]], b.dtype.code)
        vals.append(f(ta, tb))
    return ndarray._mk(shp, _scalar_dt("b1"), vals, list(range(len(vals))))


def logical_and(a, b):
    return _bool_binop(a, b, lambda p, q: E.s_and(p, q))


def logical_or(a, b):
    return _bool_binop(a, b, lambda p, q: E.s_or(p, q))


def logical_xor(a, b):
    return _bool_binop(a, b, lambda p, q: E.s_or(E.s_and(p, E.s_not(q)), E.s_and(E.s_not(p), q)))


def logical_not(a):
    a = asarray(a)
    vals = [E.s_not(_truthy_all([a._buf[p]], a.dtype.code)) for p in a._idx]
    return ndarray._mk(a.shape, _scalar_dt("b1"), vals, list(range(len(vals))))


def _as_int_value(x, code):
    """Leaf of an integer / bool array as a Python-int proxy."""
    if code == "b1":
        return 1 if bool(x) else 0  # a symbolic bool forks
    if code[0] in "iu":
        return x
    raise UnsupportedInShim("integer reduction over a float array (float arithmetic is not modelled)")


def sum(a, axis=None, dtype=None):  # noqa: A001
    a = asarray(a)
    if axis is not None or dtype is not None:
        raise UnsupportedInShim("sum(axis=/dtype=)")
    tot = 0
    for p in a._idx:
        tot = tot + _as_int_value(a._buf[p], a.dtype.code)
    return tot


def cumsum(a, axis=None, dtype=None):
    a = asarray(a)
    if a.ndim != 1 or axis not in (None, 0) or dtype is not None:
        raise UnsupportedInShim("cumsum of rank != 1")
    tot, out = 0, []
    for p in a._idx:
        tot = tot + _as_int_value(a._buf[p], a.dtype.code)
        out.append(tot)
    return _int_array(out)


def diff(a, n=1, axis=-1, prepend=None, append=None):
    a = asarray(a)
    if a.ndim != 1 or n != 1 or axis not in (-1, 0):
        raise UnsupportedInShim("diff of rank != 1 / order != 1")
    parts = []
    if prepend is not None:
        parts.append(asarray(prepend).ravel())
    parts.append(a)
    if append is not None:
        parts.append(asarray(append).ravel())
    if len(parts) > 1:
        a = concatenate([q.astype(a.dtype) for q in parts])
    code = a.dtype.code
    if code == "b1":
        leaves = [a._buf[p] for p in a._idx]
        vals = [E.s_or(E.s_and(leaves[i + 1], E.s_not(leaves[i])), E.s_and(E.s_not(leaves[i + 1]), leaves[i])) for i in range(len(leaves) - 1)]
        return ndarray._mk((len(vals),), _scalar_dt("b1"), vals, list(range(len(vals))))
    if code[0] not in "iu":
        raise UnsupportedInShim("diff of a float array (float arithmetic is not modelled)")
    leaves = [a._buf[p] for p in a._idx]
    vals = [to_leaf(leaves[i + 1] - leaves[i], code) for i in range(len(leaves) - 1)]
    return ndarray._mk((len(vals),), a.dtype, vals, list(range(len(vals))))


def append(arr, values, axis=None):
    if axis is not None:
        raise UnsupportedInShim("append(axis=)")
    a, v = asarray(arr).ravel(), asarray(values).ravel()
    if a.size == 0:
        return v.copy() if v.dtype == a.dtype else v.astype(_scalar_dt(_common_code(a.dtype.code, v.dtype.code)))
    return concatenate([a, v])


def delete(arr, obj, axis=None):
    a = asarray(arr)
    if a.ndim != 1 or axis not in (None, 0):
        raise UnsupportedInShim("delete on rank != 1")
    n = a.shape[0]
    objs = [obj] if not isinstance(obj, (list, tuple, ndarray)) else list(obj)
    drop = set()
    for o in objs:
        i = _as_index(o)
        if i < -n or i >= n:
            raise IndexError(f"index {i} is out of bounds for axis 0 with size {n}")
        drop.add(i + n if i < 0 else i)
    return a[[i for i in range(n) if i not in drop]] if drop else a.copy()


def split(ary, indices_or_sections, axis=0):
    a = asarray(ary)
    if axis != 0:
        raise UnsupportedInShim("split(axis != 0)")
    n = a.shape[0]
    if isinstance(indices_or_sections, int):
        k = indices_or_sections
        if k <= 0 or n % k:
            raise ValueError("array split does not result in an equal division")
        cuts = [n // k * i for i in range(1, k)]
    else:
        cuts = [_as_index(x) for x in (indices_or_sections.tolist() if isinstance(indices_or_sections, ndarray) else indices_or_sections)]
    out, prev = [], 0
    for c in cuts + [n]:
        out.append(a[prev:c] if c >= prev else a[prev:prev])
        prev = _b.max(prev, c) if c >= 0 else prev
    return out


array_split = split

def size(a, axis=None):
    a = asarray(a)
    return a.size if axis is None else a.shape[axis]


def ndim(a):
    return asarray(a).ndim


def _reduce_axis(a, axis, f):
    """all / any along one axis of a bool-like array"""
    a = asarray(a)
    if axis < 0:
        axis += a.ndim
    if not 0 <= axis < a.ndim:
        raise ValueError(f"axis {axis} is out of bounds for array of dimension {a.ndim}")
    moved = a.transpose(*([i for i in range(a.ndim) if i != axis] + [axis]))
    k = a.shape[axis]
    out_shape = moved.shape[:-1]
    vals = []
    for i in range(0, len(moved._idx), k) if k else []:
        leaves = [moved._buf[p] for p in moved._idx[i:i + k]]
        vals.append(f(leaves, a.dtype.code))
    if not k:
        n = _prod(out_shape)
        vals = [f([], a.dtype.code)] * n
    vals = [v if isinstance(v, (bool, SBool)) else mkbool(v) for v in vals]
    return ndarray._mk(out_shape, _scalar_dt("b1"), vals, list(range(len(vals))))


def ascontiguousarray(a, dtype=None):
    a = asarray(a, dtype) if dtype is not None else asarray(a)
    if a.ndim == 0:
        return a.reshape(1)
    return a if a._contig(False) else a.copy(order="C")


def asfortranarray(a, dtype=None):
    a = asarray(a, dtype) if dtype is not None else asarray(a)
    return a if a._contig(True) else a.copy(order="F")


def __getattr__(name):
    if name.startswith("__"):
        raise AttributeError(name)
    raise UnsupportedInShim(f"numpy.{name} is outside the modelled subset")
