"""bin/check entry point."""
from __future__ import annotations

import argparse
import importlib
import os
import sys

VERIF = os.path.dirname(os.path.dirname(os.path.abspath(__file__)))
sys.path.insert(0, VERIF)


def _harness(pid: str):
    return importlib.import_module(f"harness.{pid.lower()}")


def main(argv=None) -> int:
    ap = argparse.ArgumentParser()
    ap.add_argument("property", nargs="?")
    ap.add_argument("--tier", default=os.environ.get("VERIF_TIER", "quick"), choices=["quick", "thorough"])
    ap.add_argument("--replay")
    ap.add_argument("--jobs", type=int, default=int(os.environ.get("VERIF_JOBS", "16")))
    ap.add_argument("--only", help="substring filter on instance names (debugging)")
    ap.add_argument("--list", action="store_true")
    a = ap.parse_args(argv)
    from symtdf import runner

    if a.replay:
        import json

        d = json.load(open(a.replay))

        def find(pid, name, tier):
            h = _harness(pid)
            for t in (tier, "thorough", "quick"):
                for inst in h.instances(t):
                    if inst.name == name:
                        return inst
            return None

        return runner.replay_file(a.replay, find)
    seed = int(os.environ.get("VERIF_SEED", "0") or 0)
    h = _harness(a.property)
    insts = h.instances(a.tier)
    if a.only:
        insts = [i for i in insts if a.only in i.name]
    if a.list:
        for i in insts:
            print(i.name)
        return 0
    return runner.run_property(h.PROPERTY, insts, h.META, a.tier, seed, jobs=a.jobs)


if __name__ == "__main__":
    sys.exit(main())
