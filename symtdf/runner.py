"""Run a property's harness instances, replay counterexamples, write evidence."""
from __future__ import annotations

import hashlib
import json
import multiprocessing as mp
import os
import shutil
import subprocess
import random
import sys
import time
import traceback
from typing import Any, Callable, Dict, List, Optional

from . import engine as E
from . import loader as L
from .inputs import ConcInputs, HarnessError, SymInputs

VERIF = os.path.dirname(os.path.dirname(os.path.abspath(__file__)))
OUT = os.path.join(VERIF, "out")
KNOWN = os.path.join(VERIF, "known_findings.json")

EXIT_OK, EXIT_VIOLATION, EXIT_INCONCLUSIVE, EXIT_HARNESS = 0, 1, 2, 3


class Instance:
    def __init__(self, name: str, fn: Callable, goals: Optional[List[str]] = None, meta: Optional[dict] = None,
                 cost: int = 1, max_paths: int = 20000, setup: Optional[Callable] = None) -> None:
        self.name = name
        self.fn = fn
        self.goals = list(goals or [])
        self.meta = meta or {}
        self.cost = cost
        self.max_paths = max_paths


_INSTANCES: List[Instance] = []
_CFG: dict = {}


def _concrete_run(inst: Instance, values: dict):
    """Run the harness on the real numpy build with concrete inputs."""
    I = ConcInputs(values)
    err = None
    try:
        inst.fn(I)
    except HarnessError as e:
        err = f"HarnessError: {e}"
    except Exception as e:  # an exception the harness did not expect
        err = f"{type(e).__name__}: {e}\n{traceback.format_exc(limit=6)}"
    finally:
        I.cleanup()
    return I, err


def _work(idx: int) -> dict:
    inst = _INSTANCES[idx]
    seed = _CFG.get("seed", 0)
    max_validate = _CFG.get("max_validate", 64)
    t0 = time.time()
    out: Dict[str, Any] = {
        "name": inst.name, "paths": 0, "ok_paths": 0, "aborted": 0, "unsupported": [], "inconclusive": [],
        "errors": [], "labels": {}, "violations": [], "concretized": [], "unreproduced": [], "validated": 0, "validation_mismatch": [],
        "goals": [], "samples": [], "queries": 0, "solver_s": 0.0, "branches": 0, "functions": {},
    }
    L.start_trace()
    loader_box: dict = {}

    def make_inputs(ctx):
        # one Loader per instance: module objects are reused across paths (the code is
        # deterministic and holds no cross-path state apart from class-level defaults,
        # which harnesses that care about (C20) reload explicitly)
        if inst.meta.get("fresh_loader") or "loader" not in loader_box:
            loader_box["loader"] = _make_loader(inst)
        return SymInputs(ctx, loader=loader_box["loader"])

    try:
        stride = 1 if max_validate >= 512 else 8
        wcount = [0]

        def policy(i):
            if wcount[0] >= max_validate:
                return False
            if i < 24 or (i + seed) % stride == 0:
                wcount[0] += 1
                return True
            return False

        results, stats = E.explore(inst.fn, make_inputs, max_paths=inst.max_paths, witness_policy=policy,
                                   time_budget=_CFG.get("time_budget", 0.0))
    except Exception as e:
        out["errors"].append(f"symbolic run raised {type(e).__name__}: {e}\n{traceback.format_exc(limit=12)}")
        out["wall_s"] = time.time() - t0
        out["functions"] = L.stop_trace()
        return out
    out["functions"] = L.stop_trace()
    out["paths"] = len(results)
    out["queries"] = stats.queries
    out["cache_hits"] = stats.cache_hits
    out["solver_s"] = round(stats.solver_s, 3)
    out["branches"] = stats.branches
    goals = set()
    rng = random.Random(seed * 7919 + idx)
    okpaths = [r for r in results if r.status == "ok"]
    out["ok_paths"] = len(okpaths)
    vset = set(id(r) for r in okpaths if r.witness is not None)
    failures_by_label: Dict[str, list] = {}
    for r in results:
        goals |= r.goals if r.status == "ok" else set()
        if r.status == "abort":
            out["aborted"] += 1
        elif r.status == "unsupported":
            # outside the modelled subset: degrade this path to a solver-chosen concrete
            # run on the real build (DESIGN 1.3); a failing labelled assertion there is a
            # reproduced violation, a passing run claims nothing beyond that one input
            done = False
            if r.witness is not None:
                for wi, wit in enumerate([r.witness] + list(getattr(r, "extra_witnesses", []))):
                    I, err = _concrete_run(inst, wit)
                    if err is None or I.failed:
                        if not done:
                            out["concretized"].append(r.detail[:200])
                        done = True
                        for lab in I.failed:
                            d = out["labels"].setdefault(lab, {"proved": 0, "failed": 0})
                            d["failed"] += 1
                            if not any(v["label"] == lab for v in out["violations"]):
                                out["violations"].append({"label": lab, "instance": inst.name, "inputs": wit,
                                                          "note": "found on a concretized path: " + r.detail[:120], "count": 1})
                        if I.failed:
                            break
            if not done:
                out["unsupported"].append(r.detail[:300])
        elif r.status == "inconclusive":
            out["inconclusive"].append(r.detail[:300])
        for note in getattr(r, "soft_inconclusive", []):
            out["inconclusive"].append(note[:300])
        for lab in r.proved:
            d = out["labels"].setdefault(lab, {"proved": 0, "failed": 0})
            d["proved"] += 1
        for f in r.failed:
            d = out["labels"].setdefault(f.label, {"proved": 0, "failed": 0})
            d["failed"] += 1
            failures_by_label.setdefault(f.label, []).append(f)
        if r.status == "ok" and id(r) in vset and r.witness is not None:
            I, err = _concrete_run(inst, r.witness)
            if I.failed:
                # the real build fails a labelled assertion of the property on this path's
                # solver-chosen input although the symbolic run proved it: the model of the
                # environment diverges from the real build here (recorded below as a
                # mismatch), and the failure itself is a violation reproduced on the real code
                for lab in I.failed:
                    if any(f.label == lab for f in r.failed):
                        continue  # the symbolic run refutes it too: reported through the counterexample replay below
                    d = out["labels"].setdefault(lab, {"proved": 0, "failed": 0})
                    d["failed"] += 1
                    if not any(v["label"] == lab for v in out["violations"]):
                        out["violations"].append({"label": lab, "instance": inst.name, "inputs": r.witness,
                                                  "note": ("fails on the real build for a solver-chosen input of a path the symbolic run accepted (model/implementation divergence)"
                                                           if not r.failed else "fails on the real build for the witness input of a path on which the symbolic run refutes other assertions"), "count": 1})
            if err is not None:
                out["validation_mismatch"].append({"why": "concrete run raised: " + err[:600], "inputs": _short(r.witness)})
            else:
                exp = json.loads(json.dumps(r.observations))
                got = json.loads(json.dumps(I.obs))
                if exp != got:
                    out["validation_mismatch"].append({"why": "observables differ", "first_diff": _first_diff(exp, got), "inputs": _short(r.witness)})
                else:
                    out["validated"] += 1
            if len(out["samples"]) < 2:
                out["samples"].append({"instance": inst.name, "decisions": _short(r.taken), "inputs": _short(r.witness),
                                       "observables": _short(r.observations)})
    out["goals"] = sorted(goals)
    # replay counterexample candidates: report only what reproduces on the real build
    for lab, fs in failures_by_label.items():
        confirmed = None
        tried = 0
        other = None
        for f in fs[:6]:
            tried += 1
            I, err = _concrete_run(inst, f.model_inputs)
            if lab in I.failed:
                confirmed = f
                break
            if I.failed and other is None:
                # the real build fails a different assertion of this property on the
                # solver's input: still a reproduced violation, reported under the
                # label that failed concretely
                other = (f, I.failed[0])
            if err is not None and not I.failed:
                out["unreproduced"].append({"label": lab, "why": "concrete run raised: " + err[:400], "inputs": _short(f.model_inputs)})
        if confirmed is not None:
            out["violations"].append({"label": lab, "instance": inst.name, "inputs": confirmed.model_inputs, "note": confirmed.note,
                                      "count": len(fs)})
        elif other is not None:
            f, clab = other
            if not any(v["label"] == clab for v in out["violations"]):
                out["violations"].append({"label": clab, "instance": inst.name, "inputs": f.model_inputs,
                                          "note": f"solver counterexample for {lab}; on the real build the failing assertion is {clab}", "count": len(fs)})
        elif not any(u["label"] == lab for u in out["unreproduced"]):
            out["unreproduced"].append({"label": lab, "why": f"{tried} candidate(s) did not fail concretely", "inputs": _short(fs[0].model_inputs)})
    out["wall_s"] = round(time.time() - t0, 3)
    return out


def _work_indexed(idx: int):
    return idx, _work(idx)


def _make_loader(inst: Instance):
    mk = inst.meta.get("make_loader")
    if mk is not None:
        return mk()
    return L.Loader()


def _short(x, limit: int = 1200):
    s = json.dumps(x, default=str)
    if len(s) <= limit:
        return json.loads(s)
    return {"truncated": s[:limit]}


def _first_diff(a, b):
    if isinstance(a, list) and isinstance(b, list):
        for i, (x, y) in enumerate(zip(a, b)):
            if x != y:
                return {"index": i, "expected": _short(x, 400), "got": _short(y, 400)}
        return {"len_expected": len(a), "len_got": len(b)}
    return {"expected": _short(a, 400), "got": _short(b, 400)}


def load_known() -> dict:
    if not os.path.exists(KNOWN):
        return {"findings": [], "fixed": []}
    with open(KNOWN) as fh:
        return json.load(fh)


def _match_known(known: dict, pid: str, v: dict) -> Optional[dict]:
    for k in known.get("findings", []):
        if k.get("property") != pid:
            continue
        if k.get("label") and k["label"] != v["label"]:
            continue
        pat = k.get("instance_prefix")
        if pat and not v["instance"].startswith(pat):
            continue
        return k
    return None


def run_property(pid: str, instances: List[Instance], meta: dict, tier: str, seed: int, jobs: int = 16) -> int:
    global _INSTANCES, _CFG
    t0 = time.time()
    _INSTANCES = sorted(instances, key=lambda i: -i.cost)
    _CFG = {"seed": seed, "max_validate": 64 if tier == "quick" else 512,
            "time_budget": float(os.environ.get("SYMTDF_INSTANCE_BUDGET_S", "240" if tier == "quick" else "1500"))}
    if "SYMTDF_PATH_BUDGET_S" not in os.environ:
        E.PATH_BUDGET_S = 150.0 if tier == "quick" else 900.0
    os.makedirs(os.path.join(OUT, "replays", pid), exist_ok=True)
    # Global early stop: once enough instances have produced replayed violations, or the
    # check's overall time budget is spent, the remaining instances are not run (they are
    # listed as skipped; with no violation in hand that makes the run inconclusive).
    overall_budget = float(os.environ.get("SYMTDF_CHECK_BUDGET_S", "1500" if tier == "quick" else "6000"))
    stop_after_violating = int(os.environ.get("SYMTDF_STOP_AFTER_VIOLATING_INSTANCES", "12"))
    results_by_idx: Dict[int, dict] = {}
    skipped_instances: List[str] = []
    # cross-solver sample: workers (forked below) write every k-th decided query as SMT-LIB2
    xdir = os.path.join(OUT, "xcheck", pid)
    do_x = not os.environ.get("BASICTDF_SRC") and os.environ.get("SYMTDF_XCHECK", "1") != "0"
    if do_x:
        shutil.rmtree(xdir, ignore_errors=True)
        os.makedirs(xdir, exist_ok=True)
        E._XDIR, E._XRATE, E._XCAP = xdir, (23 if tier == "quick" else 97), (6 if tier == "quick" else 16)
    if jobs > 1 and len(_INSTANCES) > 1:
        ctxmp = mp.get_context("fork")
        pool = ctxmp.Pool(min(jobs, len(_INSTANCES)))
        try:
            it = pool.imap_unordered(_work_indexed, range(len(_INSTANCES)), chunksize=1)
            nviol = 0
            while len(results_by_idx) < len(_INSTANCES):
                remaining = overall_budget - (time.time() - t0)
                if remaining <= 0:
                    break
                try:
                    idx, o = it.next(timeout=max(1.0, remaining))
                except mp.TimeoutError:
                    break
                except StopIteration:
                    break
                results_by_idx[idx] = o
                if o["violations"]:
                    nviol += 1
                    if nviol >= stop_after_violating:
                        break
        finally:
            pool.terminate()
            pool.join()
    else:
        for i in range(len(_INSTANCES)):
            results_by_idx[i] = _work(i)
            if time.time() - t0 > overall_budget:
                break
    done_idx = sorted(results_by_idx)
    skipped_instances = [_INSTANCES[i].name for i in range(len(_INSTANCES)) if i not in results_by_idx]
    all_instances = _INSTANCES
    _INSTANCES = [all_instances[i] for i in done_idx]
    outs = [results_by_idx[i] for i in done_idx]

    known = load_known()
    violations, known_seen, problems, inconclusive = [], [], [], []
    tot = {"paths": 0, "ok_paths": 0, "queries": 0, "cache_hits": 0, "solver_s": 0.0, "branches": 0, "validated": 0, "aborted": 0}
    labels: Dict[str, dict] = {}
    functions: Dict[str, str] = {}
    samples = []
    goals_missing = []
    unsupported = []
    concretized = []
    degraded = []
    for inst, o in zip(_INSTANCES, outs):
        for k in tot:
            tot[k] += o.get(k, 0)
        for lab, d in o["labels"].items():
            t = labels.setdefault(lab, {"proved": 0, "failed": 0})
            t["proved"] += d["proved"]
            t["failed"] += d["failed"]
        functions.update(o["functions"])
        if len(samples) < 6:
            samples.extend(o["samples"][:1])
        for e in o["errors"]:
            problems.append(f"{inst.name}: {e}")
        for m in o["validation_mismatch"][:2]:
            problems.append(f"{inst.name}: shim/impl mismatch: {json.dumps(m)[:900]}")
        for u in o["unreproduced"]:
            problems.append(f"{inst.name}: counterexample for {u['label']} did not reproduce on the real build: {json.dumps(u)[:700]}")
        for x in o["inconclusive"]:
            inconclusive.append(f"{inst.name}: {x}")
        for x in o["unsupported"]:
            unsupported.append(f"{inst.name}: {x}")
        for x in o["concretized"]:
            concretized.append(f"{inst.name}: {x}")
        miss = [g for g in inst.goals if g not in o["goals"]]
        if o["concretized"] and not o["errors"] and (o["ok_paths"] == 0 or miss):
            # the code left the modelled subset on (some of) this instance's paths: those were
            # replayed concretely on the real build; the instance is degraded, not broken
            degraded.append(f"{inst.name}: {len(o['concretized'])} path(s) concretized ({o['concretized'][0][:100]})")
            continue_checks = False
        else:
            continue_checks = True
        if o["inconclusive"]:
            continue_checks = False  # paths were cut by a budget / solver unknown: inconclusive, not a harness defect
        if continue_checks and miss and not o["errors"]:
            goals_missing.append(f"{inst.name}: coverage goals not witnessed: {miss}")
        if continue_checks and o["ok_paths"] == 0 and not o["errors"] and not inst.meta.get("allow_no_ok_paths"):
            goals_missing.append(f"{inst.name}: no feasible completed path (vacuous harness)")
        for v in o["violations"]:
            k = _match_known(known, pid, v)
            if k is not None:
                known_seen.append((k, v))
            else:
                violations.append(v)

    # unsupported paths are outside the modelled subset: nothing is claimed on them
    if unsupported:
        inconclusive.extend(unsupported)
    if skipped_instances and not violations:
        inconclusive.append(f"{len(skipped_instances)} instance(s) not run (overall time budget exhausted), e.g. {skipped_instances[:3]}")
    # a check most of whose instances ran only concretely decides nothing symbolically
    if len(degraded) * 2 > len(_INSTANCES):
        inconclusive.append(f"{len(degraded)} of {len(_INSTANCES)} instances left the modelled subset and were only replayed concretely")

    for k, v in known_seen:
        pass
    printed = set()
    for k, v in known_seen:
        key = k.get("id") or (k.get("label"), k.get("instance_prefix"))
        if key in printed:
            continue
        printed.add(key)
        print(f"KNOWN-FINDING: property={pid} {k.get('what', v['label'])}")
    replay_paths = []
    seen_sig = set()
    for v in violations:
        sig = hashlib.sha1((v["label"] + "|" + v["instance"]).encode()).hexdigest()[:12]
        if v["label"] in seen_sig:
            continue
        seen_sig.add(v["label"])
        path = os.path.join(OUT, "replays", pid, f"{sig}.json")
        with open(path, "w") as fh:
            json.dump({"property": pid, "instance": v["instance"], "label": v["label"], "inputs": v["inputs"],
                       "note": v.get("note", ""), "tier": tier}, fh, indent=1)
        replay_paths.append(path)
        print(f"VIOLATION property={pid} replay={path}")
        print(f"  label={v['label']} instance={v['instance']} {v.get('note', '')}")

    cross = cross_check(xdir, seed, 64 if tier == "quick" else 192) if do_x else {"skipped": "run against a scratch copy"}
    if cross.get("disagreements"):
        inconclusive.append(f"solvers disagree on {len(cross['disagreements'])} sampled quer(ies): {cross['disagreements'][:3]}")
    wall = time.time() - t0
    status = EXIT_OK
    if violations:
        status = EXIT_VIOLATION
    elif problems or goals_missing:
        status = EXIT_HARNESS
    elif inconclusive:
        status = EXIT_INCONCLUSIVE

    evidence = {
        "property_id": pid,
        "tier": tier,
        "seed": seed,
        "level": "model_checking",
        "wall_s": round(wall, 2),
        "violations": len(violations),
        "coverage": {
            "states": max(tot["ok_paths"], 0),
            "transitions": max(tot["branches"], 0),
            "traces_validated_against_impl": tot["validated"],
            "samples": samples[:6] if samples else [{"note": "no completed path"}],
            "exhaustive": False,
            "explanation": meta.get("explanation", ""),
            "what_the_check_covers": _claim_text(pid),
            "instances": len(_INSTANCES),
            "instances_skipped_after_early_stop_or_budget": len(skipped_instances),
            "paths_total": tot["paths"],
            "paths_infeasible_or_pruned": tot["aborted"],
            "queries": tot["queries"],
            "queries_answered_from_cache": tot["cache_hits"],
            "solver_s": round(tot["solver_s"], 2),
            "solver": "z3 " + _z3v(),
            "cross_solver_sample": cross,
            "functions_encoded": sorted(functions),
            "bounds": meta.get("bounds", {}).get(tier, meta.get("bounds", {})),
            "outside_bounds": meta.get("outside_bounds", []),
            "assertions": labels,
            "coverage_goals_missing": goals_missing,
            "concretized_paths": len(concretized),
            "concretized_paths_sample": concretized[:10],
            "unsupported_paths": unsupported[:20],
            "degraded_instances": degraded[:40],
            "inconclusive": inconclusive[:20],
            "harness_problems": problems[:20],
            "known_findings_seen": [k.get("what") for k, _ in known_seen][:20],
            "instance_table": [
                {"name": o["name"], "paths": o["paths"], "ok": o["ok_paths"], "queries": o["queries"],
                 "solver_s": o["solver_s"], "wall_s": o.get("wall_s"), "validated": o["validated"]}
                for o in outs
            ][:400],
            "exit_status": status,
        },
        "assumptions": meta.get("assumptions", []),
    }
    # evidence describes /repo itself; runs against a scratch copy (BASICTDF_SRC, used for
    # seeded changes) must not overwrite it
    evdir = os.path.join(VERIF, "evidence") if not os.environ.get("BASICTDF_SRC") else os.path.join(OUT, "scratch-evidence")
    os.makedirs(evdir, exist_ok=True)
    with open(os.path.join(evdir, f"{pid}.json"), "w") as fh:
        json.dump(evidence, fh, indent=1, default=str)

    print(f"[{pid}] tier={tier} instances={len(_INSTANCES)} paths={tot['paths']} ok={tot['ok_paths']} "
          f"queries={tot['queries']} solver_s={tot['solver_s']:.1f} validated={tot['validated']} wall={wall:.1f}s "
          f"violations={len(violations)} known={len(printed)} status={status}")
    for p in (problems + goals_missing)[:12]:
        print("HARNESS-PROBLEM:", p[:1500])
    for p in inconclusive[:8]:
        print("INCONCLUSIVE:", p[:600])
    return status


_OTHER_SOLVERS = [("z3-4.8.12", ["/usr/bin/z3", "-T:20"], ""), ("cvc5-1.0", ["/usr/bin/cvc5", "--lang=smt2", "--tlimit=20000"], "(set-logic ALL)\n")]


def _xrun(job):
    path, name, cmd, prologue = job
    with open(path) as fh:
        text = fh.read()
    expected = text.split("\n", 1)[0].replace("; expected:", "").strip()
    tmp = f"{path}.{name}.smt2"
    with open(tmp, "w") as fh:
        fh.write(prologue + text + ("" if "(check-sat)" in text else "\n(check-sat)\n"))
    try:
        p = subprocess.run(cmd + [tmp], capture_output=True, text=True, timeout=40)
        out = (p.stdout + p.stderr).strip()
    except subprocess.TimeoutExpired:
        out = "timeout"
    finally:
        try:
            os.unlink(tmp)
        except OSError:
            pass
    first = out.split("\n", 1)[0].strip() if out else ""
    if "(error" in out or first not in ("sat", "unsat"):
        got = "other"  # unknown / timeout / a construct this solver does not parse: no verdict
    else:
        got = first
    return path, name, expected, got, out[:200]


def cross_check(xdir: str, seed: int, cap: int) -> dict:
    """Re-decide a sample of the run's solver queries with the other installed solvers."""
    import random
    files = sorted(f for f in os.listdir(xdir) if f.endswith(".smt2"))
    random.Random(seed).shuffle(files)
    files = files[:cap]
    solvers = [s for s in _OTHER_SOLVERS if os.path.exists(s[1][0])]
    res = {"queries_sampled": len(files), "solvers": {}, "disagreements": []}
    if not files or not solvers:
        res["note"] = "no sample" if not files else "no other solver installed"
        return res
    jobs = [(os.path.join(xdir, f), n, c, pro) for f in files for (n, c, pro) in solvers]
    from concurrent.futures import ThreadPoolExecutor
    t0 = time.time()
    with ThreadPoolExecutor(16) as ex:
        outs = list(ex.map(_xrun, jobs))
    for path, name, expected, got, raw in outs:
        d = res["solvers"].setdefault(name, {"agree_sat": 0, "agree_unsat": 0, "no_verdict": 0, "disagree": 0})
        if got == "other":
            d["no_verdict"] += 1
        elif got == expected:
            d["agree_" + got] += 1
        else:
            d["disagree"] += 1
            res["disagreements"].append({"file": path, "solver": name, "z3": expected, "other": got})
    res["wall_s"] = round(time.time() - t0, 2)
    keep = {d["file"] for d in res["disagreements"]}
    for f in os.listdir(xdir):
        if os.path.join(xdir, f) not in keep:
            os.unlink(os.path.join(xdir, f))
    return res


def _claim_text(pid: str) -> str:
    try:
        with open(os.path.join(VERIF, "manifest_notes.json")) as fh:
            return json.load(fh).get(pid, {}).get("text", "")
    except Exception:  # noqa: BLE001
        return ""


def _z3v() -> str:
    import z3

    return z3.get_version_string()


def replay_file(path: str, find_instance: Callable[[str, str, str], Optional[Instance]]) -> int:
    with open(path) as fh:
        d = json.load(fh)
    inst = find_instance(d["property"], d["instance"], d.get("tier", "quick"))
    if inst is None:
        print(f"replay: instance {d['instance']} not found")
        return EXIT_HARNESS
    I, err = _concrete_run(inst, d["inputs"])
    print(f"replay {d['property']} {d['instance']} label={d['label']}: failed_labels={I.failed} err={err}")
    if d["label"] in I.failed:
        print(f"VIOLATION property={d['property']} replay={path}")
        return EXIT_VIOLATION
    return EXIT_OK
