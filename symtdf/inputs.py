"""The Inputs API: harnesses are written once against it.

SymInputs  - values are proxies over z3 terms; the real code is loaded under the shims.
ConcInputs - values are real numpy / Python objects taken from a solver model; the
             normally imported basictdf runs on the real numpy build (replay and
             per-run differential validation of the shims).
"""
from __future__ import annotations

import contextlib
import datetime as _rdt
import importlib
import io as _rio
import os
import sys
from typing import Any, Dict, List, Optional

import numpy as _rnp
import z3

from . import engine as E
from . import shims, symnp
from .engine import SBool, SBVInt, SFloat, SInt, mkbool
from .loader import Loader, SRC_ROOT
from .sbytes import CPW, SBytes, SStr, dec_ok_e, enc_ok_e, mkbytes, mkstr

_INT_CODES = {"i8": (8, True), "u8": (8, False), "i16": (16, True), "u16": (16, False),
              "i32": (32, True), "u32": (32, False), "i64": (64, True)}


class HarnessError(Exception):
    pass


_MISSING = object()


def _akey(name: str, shape) -> str:
    """Array inputs are keyed by name and shape: the same logical name used with two
    shapes (a block and its one-item-longer variant) denotes two independent inputs."""
    return f"{name}#{'x'.join(str(int(s)) for s in shape)}"


class _Base:
    mode = "?"

    def __init__(self) -> None:
        self._res = None
        self.obs: List[tuple] = []
        self.goals_hit: set = set()
        self.labels: Dict[str, int] = {}

    def goal(self, name: str) -> None:
        self.goals_hit.add(name)
        if self._res is not None:
            self._res.goals.add(name)

    def note(self, s: str) -> None:
        pass


# ---------------------------------------------------------------------------------
# symbolic
# ---------------------------------------------------------------------------------


class SymInputs(_Base):
    mode = "sym"

    def __init__(self, ctx: E.Ctx, loader: Optional[Loader] = None, src_root: Optional[str] = None) -> None:
        super().__init__()
        self.ctx = ctx
        self.vars: Dict[str, tuple] = {}
        self.loader = loader or Loader(src_root)
        self.np = symnp
        self.BytesIO = shims.SymIO
        self._empty_n = 0
        self._now_n = 0
        self._patches = []
        self._fs = None
        symnp.EMPTY_HOOK = self._empty_leaf
        shims.NOW_HOOK = self._now

    # -- modules -------------------------------------------------------------------
    def mod(self, short: str):
        return self.loader.mod(short)

    def fresh_modules(self) -> None:
        """Re-load the repository modules (class-level and default-argument state of
        a previous path must not leak into this one)."""
        self.loader = Loader(self.loader.src_root, self.loader.path_cls, self.loader.shutil_mod)

    # -- environment ------------------------------------------------------------------
    def _empty_leaf(self, code: str):
        name = f"empty[{self._empty_n}]"
        self._empty_n += 1
        w = symnp._fw(code)
        v = z3.BitVec(name, w)
        self.vars[name] = ("bits", w, v)
        if code[0] == "f":
            return v
        if code == "b1":
            return SBool(v != 0)
        return E.bv_from_field(v, code[0] == "i")

    def _now(self):
        name = f"now[{self._now_n}]"
        self._now_n += 1
        v = z3.Int(name)
        self.vars[name] = ("int", v)
        self.ctx.add(z3.And(v >= 0, v < 2**31))
        return SInt(v)

    # -- creators ---------------------------------------------------------------------
    def f32(self, name: str) -> SFloat:
        v = z3.BitVec(name, 32)
        self.vars[name] = ("bits", 32, v)
        return SFloat(32, v)

    def f64(self, name: str) -> SFloat:
        v = z3.BitVec(name, 64)
        self.vars[name] = ("bits", 64, v)
        return SFloat(64, v)

    def farray(self, name: str, shape, w: int = 32):
        """Array of unconstrained float bits."""
        shape = tuple(shape) if isinstance(shape, (tuple, list)) else (shape,)
        n = 1
        for s in shape:
            n *= s
        name = _akey(name, shape)
        terms = [z3.BitVec(f"{name}[{i}]", w) for i in range(n)]
        self.vars[name] = ("bitsarr", w, shape, terms)
        dt = symnp.dtype("<f4" if w == 32 else "<f8")
        return symnp.ndarray._mk(shape, dt, list(terms), list(range(n)))

    def ibv(self, name: str, code: str) -> SBVInt:
        """A byte-borne integer over the whole range of its on-disk type."""
        k, signed = _INT_CODES[code]
        v = z3.BitVec(name, k)
        self.vars[name] = ("bvint", k, signed, v)
        return E.bv_from_field(v, signed)

    def iarray(self, name: str, n: int, code: str):
        k, signed = _INT_CODES[code]
        name = _akey(name, (n,))
        terms = [z3.BitVec(f"{name}[{i}]", k) for i in range(n)]
        self.vars[name] = ("bvintarr", k, signed, terms)
        dt = symnp.dtype(("<i" if signed else "<u") + str(k // 8))
        return symnp.ndarray._mk((n,), dt, [E.bv_from_field(t, signed) for t in terms], list(range(n)))

    def int(self, name: str, lo: Optional[int] = None, hi: Optional[int] = None) -> SInt:
        v = z3.Int(name)
        self.vars[name] = ("int", v)
        if lo is not None:
            self.ctx.add(v >= lo)
        if hi is not None:
            self.ctx.add(v <= hi)
        return SInt(v)

    def chars(self, name: str, length: int, kind: str = "valid"):
        """String of `length` symbolic characters.
        kind: valid (cp1252-encodable, non-NUL) | nonul (any code point but NUL) |
        any (any code point < 0x110000)."""
        name = _akey(name, (length,))
        terms = [z3.BitVec(f"{name}[{i}]", CPW) for i in range(length)]
        self.vars[name] = ("str", terms)
        for t in terms:
            if kind == "valid":
                for cnd in (enc_ok_e(t), z3.simplify(t != 0)):
                    self.ctx.add(cnd)
                    self.ctx.remember(cnd, True)
            elif kind == "nonul":
                for cnd in (z3.ULT(t, 0x110000), z3.simplify(t != 0)):
                    self.ctx.add(cnd)
                    self.ctx.remember(cnd, True)
            else:
                self.ctx.add(z3.ULT(t, 0x110000))
        if not terms:
            return ""
        return SStr(terms)

    label = chars

    def rawbytes(self, name: str, n: int):
        name = _akey(name, (n,))
        terms = [z3.BitVec(f"{name}[{i}]", 8) for i in range(n)]
        self.vars[name] = ("bytes", terms)
        if not terms:
            return b""
        return SBytes(terms)

    def date(self, name: str, lo: int = 0, hi: int = 2**31 - 1):
        v = z3.Int(name)
        self.vars[name] = ("int", v)
        self.ctx.add(z3.And(v >= lo, v <= hi))
        return shims.SymDate(SInt(v))

    def payload(self, name: str, size):
        """`size` bytes of arbitrary content (uninterpreted function of the index)."""
        from . import symfile as SF

        fn = z3.Function(name, z3.IntSort(), z3.BitVecSort(8))
        self.vars[name] = ("fn", fn, SF.zt(size))
        return SF.OpaquePayload(fn, size, name)

    def fs(self):
        from .fsapi import SymFSApi

        self._fs = SymFSApi(self)
        return self._fs

    def prefer(self, cond) -> None:
        """Soft constraint used only when a model is produced (small replay inputs)."""
        self.ctx.prefs.append(E.as_z3_bool(cond))

    def patch(self, obj, attr: str, value) -> None:
        self._patches.append((obj, attr, obj.__dict__.get(attr, _MISSING) if isinstance(obj, type) else getattr(obj, attr, _MISSING)))
        setattr(obj, attr, value)

    def cleanup(self) -> None:
        for obj, attr, old in reversed(self._patches):
            if old is _MISSING:
                try:
                    delattr(obj, attr)
                except AttributeError:
                    pass
            else:
                setattr(obj, attr, old)
        self._patches = []
        if getattr(self, "_fs", None) is not None:
            self._fs.cleanup()
            self._fs = None

    def shaped(self, name: str, rank: int, dt: str = "<f4"):
        """ndarray of the given rank whose extents are arbitrary non-negative ints."""
        ext = []
        for k in range(rank):
            v = z3.Int(f"{name}.dim{k}")
            self.vars[f"{name}.dim{k}"] = ("int", v)
            self.ctx.add(z3.And(v >= 0, v <= 2**20))
            ext.append(SInt(v))
        return symnp.ShapeOnlyArray.make(ext, dt)

    def bool(self, name: str):
        v = z3.Bool(name)
        self.vars[name] = ("bool", v)
        return SBool(v)

    # -- assumptions / predicates ---------------------------------------------------------
    def assume(self, cond) -> None:
        E.assume(cond)

    def isnan(self, x):
        return symnp.isnan(x)

    def not_(self, x):
        return E.s_not(x)

    def and_(self, *xs):
        return E.s_and(*xs)

    def or_(self, *xs):
        return E.s_or(*xs)

    def implies(self, a, b):
        """a => b; distributes over a conjunction in b so that prove() can discharge
        one small query per conjunct instead of one monolithic query."""
        if a is True:
            return b
        if a is False:
            return True
        parts = _split(b)
        if len(parts) > 1:
            na = E.s_not(a)
            return [E.s_or(na, p if isinstance(p, bool) else SBool(p)) for p in parts]
        return E.s_or(E.s_not(a), b)

    def ite(self, c, a, b):
        if isinstance(c, SBool):
            return E.s_or(E.s_and(c, a), E.s_and(E.s_not(c), b))
        return a if c else b

    def concrete(self, x) -> bool:
        return not isinstance(x, (SBool, E.SymIntBase, SFloat, SBytes, SStr))

    def far(self, x, y):
        """x and y (float scalars of equal width) are certainly not np.isclose:
        opposite signs, both magnitudes >= 1, neither NaN."""
        fx = E.to_sfloat(x, getattr(y, "w", 32) if not isinstance(x, SFloat) else x.w)
        fy = E.to_sfloat(y, fx.w)
        return mkbool(symnp.far_e(fx.b, fy.b, fx.w))

    def truth(self, x) -> bool:
        """Concrete truth value of a condition on this path (forks if undecided)."""
        if isinstance(x, bool):
            return x
        return E.branch(E.as_z3_bool(x))

    # -- assertions ------------------------------------------------------------------------
    def prove(self, label: str, cond, note: str = "") -> bool:
        """Prove `cond` on this path for all values; record a counterexample otherwise."""
        res = self._res
        self.labels[label] = self.labels.get(label, 0) + 1
        conj = _split(cond)
        ok = True
        for c in conj:
            if c is True:
                continue
            if c is False:
                r, m = self.ctx.model_for()
                if r == "unknown":
                    raise E.Inconclusive(f"prove {label}: unknown")
                if r == "unsat":
                    raise E.PathAbort("unsat path at prove")
                try:
                    mi0 = self.model_inputs(m)
                except HarnessError as he:
                    raise E.Inconclusive(f"prove {label}: counterexample not replayable ({he})")
                res.failed.append(E.Failure(label, mi0, list(self.ctx.taken), note))
                ok = False
                break
            if self._syntactic(c):
                continue
            r = self.ctx.check(z3.Not(c))
            if r == "unsat":
                self.ctx.add(c)
                continue
            if r == "unknown":
                raise E.Inconclusive(f"prove {label}: solver unknown on {str(c)[:160]}")
            r, m = self.ctx.model_for(z3.Not(c))
            if r != "sat":
                raise E.Inconclusive(f"prove {label}: full-model query {r}")
            try:
                mi = self.model_inputs(m)
            except HarnessError as he:
                # a counterexample exists but cannot be materialised for replay (huge payload):
                # nothing is reported for it; the obligation stays open (inconclusive) and the
                # path goes on - a later obligation may be refuted by a replayable input
                res.soft_inconclusive.append(f"prove {label}: counterexample not replayable ({he})")
                ok = False
                break
            res.failed.append(E.Failure(label, mi, list(self.ctx.taken), note))
            ok = False
            break
        if ok:
            res.proved.append(label)
        return ok

    def _syntactic(self, c) -> bool:
        """Literal-cache shortcut: the obligation (or one of its disjuncts) is a
        condition already decided true on this path."""
        k = self.ctx.lookup(c)
        if k is True:
            return True
        if z3.is_or(c):
            for d in c.children():
                if self.ctx.lookup(d) is True:
                    return True
                if z3.is_not(d) and self.ctx.lookup(d.arg(0)) is False:
                    return True
        if z3.is_not(c) and self.ctx.lookup(c.arg(0)) is False:
            return True
        return False

    def fail(self, label: str, note: str = "") -> None:
        self.prove(label, False, note)

    def observe(self, name: str, value) -> None:
        self.obs.append((name, value))

    # -- models -----------------------------------------------------------------------------
    def model_inputs(self, model) -> dict:
        out = {}

        def ev(t):
            v = model.eval(t, model_completion=True)
            if z3.is_bv_value(v) or z3.is_int_value(v):
                return v.as_long()
            if z3.is_true(v):
                return True
            if z3.is_false(v):
                return False
            raise HarnessError(f"cannot evaluate {t} -> {v}")

        for name, spec in self.vars.items():
            kind = spec[0]
            if kind == "bits":
                out[name] = ev(spec[2])
            elif kind == "bitsarr":
                out[name] = [ev(t) for t in spec[3]]
            elif kind == "bvint":
                v = ev(spec[3])
                if spec[2] and v >= 1 << (spec[1] - 1):
                    v -= 1 << spec[1]
                out[name] = v
            elif kind == "bvintarr":
                vals = []
                for t in spec[3]:
                    v = ev(t)
                    if spec[2] and v >= 1 << (spec[1] - 1):
                        v -= 1 << spec[1]
                    vals.append(v)
                out[name] = vals
            elif kind == "int":
                out[name] = ev(spec[1])
            elif kind == "str":
                out[name] = [ev(t) for t in spec[1]]
            elif kind == "bytes":
                out[name] = [ev(t) for t in spec[1]]
            elif kind == "bool":
                out[name] = ev(spec[1])
            elif kind == "fn":
                n = ev(spec[2])
                if n > (1 << 22):
                    raise HarnessError(f"payload {name} too large to materialise for replay ({n} bytes)")
                if n <= 4096:
                    out[name] = [ev(spec[1](z3.IntVal(i))) for i in range(max(0, n))]
                else:
                    # large payload: read the function interpretation once instead of
                    # evaluating every index (default value plus the listed points)
                    vals = None
                    fi = model[spec[1]]
                    if fi is not None:
                        try:
                            default = fi.else_value()
                            dv = default.as_long() if z3.is_bv_value(default) else 0
                            vals = [dv] * n
                            for k in range(fi.num_entries()):
                                en = fi.entry(k)
                                idx = en.arg_value(0).as_long()
                                if 0 <= idx < n:
                                    vals[idx] = en.value().as_long()
                        except Exception:
                            vals = None
                    if vals is None:
                        vals = [0] * n
                    out[name] = {"rle": True, "n": n, "default": vals[0] if vals else 0,
                                 "points": {str(i): v for i, v in enumerate(vals) if v != (vals[0] if vals else 0)}}
        return out

    def eval_observations(self, model) -> list:
        return [(n, canon(v, model)) for n, v in self.obs]

    def diverse_inputs(self, k: int, seed: int = 0) -> list:
        """Up to k further solver models of the current path condition, each biased by a
        random set of soft constraints towards collisions and special values (equal
        sizes / formats / channels / characters, zeros, extreme values).  Used only when a
        path left the modelled subset and is degraded to concrete runs on the real build."""
        import random

        rng = random.Random(seed)
        groups = {"int": [], "bv": {}, "f": {}, "ch": []}
        for name, spec in self.vars.items():
            kind = spec[0]
            if kind == "int":
                groups["int"].append(spec[1])
            elif kind == "bvint":
                groups["bv"].setdefault(spec[1], []).append(spec[3])
            elif kind == "bvintarr":
                groups["bv"].setdefault(spec[1], []).extend(spec[3])
            elif kind == "bits":
                groups["f"].setdefault(spec[1], []).append(spec[2])
            elif kind == "bitsarr":
                groups["f"].setdefault(spec[1], []).extend(spec[3])
            elif kind == "str":
                groups["ch"].extend(spec[1])
        out = []
        for _ in range(k):
            atoms = []
            ints = groups["int"]
            for _ in range(6):
                if len(ints) >= 2:
                    a, b = rng.sample(ints, 2)
                    atoms.append(a == b)
                if ints:
                    atoms.append(rng.choice(ints) == rng.choice([0, 1, 2, 255, 256]))
            for w, terms in groups["bv"].items():
                for _ in range(4):
                    if len(terms) >= 2:
                        a, b = rng.sample(terms, 2)
                        atoms.append(a == b)
                    atoms.append(rng.choice(terms) == rng.choice([0, 1, (1 << w) - 1, 1 << (w - 1), (1 << (w - 1)) - 1]))
            for w, terms in groups["f"].items():
                specials = [0, 1 << (w - 1), (0x3F800000 if w == 32 else 0x3FF0000000000000), (0x7F7FFFFF if w == 32 else 0x7FEFFFFFFFFFFFFF),
                            (0x7F800000 if w == 32 else 0x7FF0000000000000), (0x7FC00000 if w == 32 else 0x7FF8000000000000), 1]
                for _ in range(6):
                    atoms.append(rng.choice(terms) == rng.choice(specials))
                    if len(terms) >= 2:
                        a, b = rng.sample(terms, 2)
                        atoms.append(a == b)
            chs = groups["ch"]
            for _ in range(6):
                if len(chs) >= 2:
                    a, b = rng.sample(chs, 2)
                    atoms.append(a == b)
                if chs:
                    atoms.append(rng.choice(chs) == rng.choice([0x20, 0x41, 0x61, 0x80, 0x20AC, 0xE9, 0x85]))
            rng.shuffle(atoms)
            saved = self.ctx.prefs
            self.ctx.prefs = list(saved) + atoms[:24]
            try:
                r, m = self.ctx.model_for()
            finally:
                self.ctx.prefs = saved
            if r == "sat":
                out.append(self.model_inputs(m))
        return out


def _split(cond) -> list:
    if isinstance(cond, SBool):
        e = z3.simplify(cond.e)
        if z3.is_true(e):
            return [True]
        if z3.is_false(e):
            return [False]
        if z3.is_and(e):
            return list(e.children())
        return [e]
    if isinstance(cond, (list, tuple)):
        out = []
        for c in cond:
            out.extend(_split(c))
        return out
    if z3.is_expr(cond):
        return _split(SBool(cond))
    return [bool(cond)]


# ---------------------------------------------------------------------------------
# canonical observation values
# ---------------------------------------------------------------------------------


def _ev_int(model, t):
    v = model.eval(t, model_completion=True)
    if z3.is_bv_value(v):
        return v.as_long()
    if z3.is_int_value(v):
        return v.as_long()
    raise HarnessError(f"cannot evaluate {t}")


def canon(v, model=None):
    """Canonical JSON-able form of an observable (symbolic evaluated under `model`)."""
    from .sbytes import IB, item_bv

    if v is None or isinstance(v, (bool, str)):
        return v
    if isinstance(v, (_rnp.bool_,)):
        return bool(v)
    if isinstance(v, SBool):
        r = model.eval(v.e, model_completion=True)
        return bool(z3.is_true(r))
    if isinstance(v, (int, _rnp.integer)):
        return int(v)
    if isinstance(v, SInt):
        return _ev_int(model, v.e)
    if isinstance(v, SBVInt):
        r = model.eval(v.e, model_completion=True)
        return r.as_signed_long()
    if isinstance(v, SFloat):
        b = v.b if isinstance(v.b, int) else _ev_int(model, v.b)
        return {"f": v.w, "bits": _canon_nan(b, v.w)}
    if isinstance(v, (_rnp.floating,)):
        w = 8 * v.dtype.itemsize
        return {"f": w, "bits": _canon_nan(E.float_to_bits(v, w) if w == 64 else int(_rnp.array(v, dtype="<f4").view("<u4")), w)}
    if isinstance(v, float):
        return {"f": 64, "bits": _canon_nan(E.float_to_bits(v, 64), 64)}
    if isinstance(v, (bytes, bytearray)):
        return {"hex": bytes(v).hex()}
    if isinstance(v, SBytes):
        out = bytearray()
        for x in v.items:
            if isinstance(x, int):
                out.append(x)
            elif isinstance(x, IB):
                e = _ev_int(model, x.e)
                out.append(((e % (1 << (8 * x.w))) >> (8 * x.i)) & 0xFF)
            else:
                out.append(_ev_int(model, x))
        return {"hex": bytes(out).hex()}
    if isinstance(v, SStr):
        return "".join(chr(x if isinstance(x, int) else _ev_int(model, x)) for x in v.items)
    if isinstance(v, symnp.ndarray):
        if v.dtype.code == "O":
            return {"objarr": list(v.shape), "items": [canon(x, model) for x in v.leaves()]}
        if v.dtype.code == "b1":
            return {"shape": list(v.shape), "dtype": "|b1", "vals": [canon(x, model) for x in v.leaves()]}
        return {"shape": list(v.shape), "dtype": v.dtype.str, "data": canon(v.tobytes(), model)["hex"] if v.size else ""}
    if isinstance(v, _rnp.ndarray):
        if v.dtype == object:
            return {"objarr": list(v.shape), "items": [canon(x) for x in v.ravel().tolist()]}
        if v.dtype == bool:
            return {"shape": list(v.shape), "dtype": "|b1", "vals": [bool(x) for x in v.ravel()]}
        dts = v.dtype.str if v.dtype.fields is None else "<V"
        return {"shape": list(v.shape), "dtype": dts, "data": _rnp.ascontiguousarray(v).tobytes().hex()}
    if isinstance(v, symnp.Record):
        return [canon(x, model) for x in v]
    if isinstance(v, _rnp.void):
        return [canon(x) for x in v]
    if isinstance(v, shims.SymDate):
        return canon(v.secs, model)
    if isinstance(v, _rdt.datetime):
        return int(v.timestamp())
    if isinstance(v, (list, tuple)):
        return [canon(x, model) for x in v]
    if isinstance(v, dict):
        return {str(k): canon(x, model) for k, x in v.items()}
    if isinstance(v, BaseException):
        return {"exc": type(v).__name__}
    if isinstance(v, type):
        return {"type": v.__name__}
    import enum

    if isinstance(v, enum.Enum):
        return {"enum": type(v).__name__, "name": v.name}
    if isinstance(v, slice):
        return {"slice": [v.start, v.stop]}
    return {"repr": type(v).__name__}


def _canon_nan(bits: int, w: int) -> int:
    return bits


# ---------------------------------------------------------------------------------
# concrete
# ---------------------------------------------------------------------------------


class _NpProxy:
    """`np` as seen by the real basictdf modules during replay: numpy itself, except
    that np.empty returns the contents chosen by the solver model (np.empty's contract
    allows any contents)."""

    def __init__(self, inputs: "ConcInputs") -> None:
        self._inputs = inputs

    def __getattr__(self, name):
        return getattr(_rnp, name)

    def empty(self, shape, dtype=float, order="C"):
        return self._inputs._np_empty(shape, dtype)


class _FakeDatetime(_rdt.datetime):
    _inputs = None

    @classmethod
    def now(cls, tz=None):
        return cls._inputs._now()


class ConcInputs(_Base):
    mode = "conc"

    def __init__(self, values: dict, src_root: Optional[str] = None) -> None:
        super().__init__()
        self.values = dict(values)
        self.np = _rnp
        self.BytesIO = _rio.BytesIO
        self.failed: List[str] = []
        self.proved: List[str] = []
        self._empty_n = 0
        self._now_n = 0
        self.src_root = src_root or SRC_ROOT
        self._mods: Dict[str, Any] = {}
        self._patched: List[tuple] = []
        self._patches = []
        self._fs = None

    # -- modules -----------------------------------------------------------------------
    def _ensure_path(self) -> None:
        root = os.path.realpath(self.src_root)
        if not sys.path or os.path.realpath(sys.path[0]) != root:
            sys.path.insert(0, root)
        m = sys.modules.get("basictdf")
        if m is not None and not os.path.realpath(getattr(m, "__file__", "")).startswith(root):
            for k in [k for k in sys.modules if k == "basictdf" or k.startswith("basictdf.")]:
                del sys.modules[k]

    def fresh_modules(self) -> None:
        self.unpatch()
        self._mods = {}
        for k in [k for k in sys.modules if k == "basictdf" or k.startswith("basictdf.")]:
            del sys.modules[k]

    def mod(self, short: str):
        if short in self._mods:
            return self._mods[short]
        self._ensure_path()
        m = importlib.import_module(f"basictdf.{short}")
        self._mods[short] = m
        self._patch(m)
        return m

    def _patch(self, m) -> None:
        # every already-imported basictdf module gets the np / datetime stubs
        for name, mod in list(sys.modules.items()):
            if name.startswith("basictdf.") and mod is not None:
                if getattr(mod, "np", None) is _rnp:
                    self._patched.append((mod, "np", _rnp))
                    mod.np = _NpProxy(self)
                elif isinstance(getattr(mod, "np", None), _NpProxy):
                    mod.np._inputs = self
                if getattr(mod, "datetime", None) is _rdt.datetime or (
                    isinstance(getattr(mod, "datetime", None), type) and issubclass(getattr(mod, "datetime"), _FakeDatetime)
                ):
                    fd = type("FakeDatetime", (_FakeDatetime,), {"_inputs": self})
                    if getattr(mod, "datetime") is _rdt.datetime:
                        self._patched.append((mod, "datetime", _rdt.datetime))
                    mod.datetime = fd

    def unpatch(self) -> None:
        for mod, name, orig in self._patched:
            setattr(mod, name, orig)
        self._patched = []

    # -- environment ------------------------------------------------------------------------
    def _np_empty(self, shape, dtype):
        dt = _rnp.dtype(dtype)
        a = _rnp.empty(shape, dtype=dt)
        if dt.kind == "O" or a.size == 0:
            return a
        # leaf layout identical to symnp.empty: row-major, record by record
        leaf_dts = _leaf_dtypes(dt)
        raw = bytearray()
        nitems = a.size // max(1, int(_rnp.prod(dt.shape))) if dt.shape else a.size
        # `a` already has the sub-array dims expanded; count base items
        base = dt.base if dt.shape else dt
        nrec = a.size if not dt.shape else a.size // int(_rnp.prod(dt.shape))
        per = _leaf_dtypes(dt)
        total_leaves = (a.size if base.fields is None else a.size * len(_leaf_dtypes(base)))
        if base.fields is None:
            ld = base
            for _ in range(a.size):
                raw += self._empty_bits(ld)
        else:
            lds = _leaf_dtypes(base)
            for _ in range(a.size):
                for ld in lds:
                    raw += self._empty_bits(ld)
        out = _rnp.frombuffer(bytes(raw), dtype=a.dtype).reshape(a.shape).copy()
        return out

    def _empty_bits(self, ld) -> bytes:
        name = f"empty[{self._empty_n}]"
        self._empty_n += 1
        w = ld.itemsize
        v = self.values.get(name, int.from_bytes(b"\x41" * w, "little"))
        return int(v).to_bytes(w, "little")

    def _now(self):
        name = f"now[{self._now_n}]"
        self._now_n += 1
        v = self.values.get(name, 1_000_000_000)
        return _rdt.datetime.fromtimestamp(int(v))

    # -- creators -----------------------------------------------------------------------------
    def _get(self, name, default):
        return self.values.get(name, default)

    def f32(self, name: str):
        return _rnp.array(self._get(name, 0), dtype="<u4").view("<f4")[()]

    def f64(self, name: str):
        return _rnp.array(self._get(name, 0), dtype="<u8").view("<f8")[()]

    def farray(self, name: str, shape, w: int = 32):
        shape = tuple(shape) if isinstance(shape, (tuple, list)) else (shape,)
        n = int(_rnp.prod(shape)) if shape else 1
        vals = self._get(_akey(name, shape), [0] * n)
        u = _rnp.array(vals, dtype="<u4" if w == 32 else "<u8")
        return u.view("<f4" if w == 32 else "<f8").reshape(shape).copy()

    def ibv(self, name: str, code: str):
        return int(self._get(name, 0))

    def iarray(self, name: str, n: int, code: str):
        k, signed = _INT_CODES[code]
        return _rnp.array(self._get(_akey(name, (n,)), [0] * n), dtype=("<i" if signed else "<u") + str(k // 8))

    def int(self, name: str, lo=None, hi=None):
        return int(self._get(name, lo if lo is not None else 0))

    def chars(self, name: str, length: int, kind: str = "valid"):
        vals = self._get(_akey(name, (length,)), [0x41] * length)
        return "".join(chr(v) for v in vals)

    label = chars

    def rawbytes(self, name: str, n: int):
        return bytes(self._get(_akey(name, (n,)), [0] * n))

    def date(self, name: str, lo: int = 0, hi: int = 2**31 - 1):
        return _rdt.datetime.fromtimestamp(int(self._get(name, max(lo, min(hi, 1_000_000_000)))))

    def payload(self, name: str, size):
        v = self._get(name, [])
        size = int(size)
        if isinstance(v, dict) and v.get("rle"):
            buf = bytearray([v["default"]]) * size
            for k, x in v["points"].items():
                if int(k) < size:
                    buf[int(k)] = x
            return bytes(buf)
        vals = list(v)
        vals = (vals + [0] * size)[:size]
        return bytes(vals)

    def fs(self):
        from .fsapi import ConcFSApi

        self._fs = ConcFSApi(self)
        return self._fs

    def prefer(self, cond) -> None:
        pass

    def patch(self, obj, attr: str, value) -> None:
        self._patches.append((obj, attr, obj.__dict__.get(attr, _MISSING) if isinstance(obj, type) else getattr(obj, attr, _MISSING)))
        setattr(obj, attr, value)

    def cleanup(self) -> None:
        for obj, attr, old in reversed(self._patches):
            if old is _MISSING:
                try:
                    delattr(obj, attr)
                except AttributeError:
                    pass
            else:
                setattr(obj, attr, old)
        self._patches = []
        if getattr(self, "_fs", None) is not None:
            self._fs.cleanup()
            self._fs = None
        self.unpatch()

    def shaped(self, name: str, rank: int, dt: str = "<f4"):
        shape = tuple(int(self._get(f"{name}.dim{k}", 0)) for k in range(rank))
        return _rnp.broadcast_to(_rnp.zeros((), dtype=dt), shape)

    def bool(self, name: str):
        return bool(self._get(name, False))

    # -- assumptions / predicates -----------------------------------------------------------------
    def assume(self, cond) -> None:
        if not _cb(cond):
            raise HarnessError("replay inputs violate a harness assumption")

    def isnan(self, x):
        return _rnp.isnan(x)

    def not_(self, x):
        return not _cb(x)

    def and_(self, *xs):
        return all(_cb(x) for x in xs)

    def or_(self, *xs):
        return any(_cb(x) for x in xs)

    def implies(self, a, b):
        return (not _cb(a)) or _cb(b)

    def ite(self, c, a, b):
        return a if _cb(c) else b

    def concrete(self, x) -> bool:
        return True

    def truth(self, x) -> bool:
        return _cb(x)

    def far(self, x, y):
        x, y = float(x), float(y)
        return x == x and y == y and abs(x) >= 1 and abs(y) >= 1 and ((x < 0) != (y < 0))

    def prove(self, label: str, cond, note: str = "") -> bool:
        if isinstance(cond, (list, tuple)):
            ok = all(_cb(c) for c in cond)
        else:
            ok = _cb(cond)
        (self.proved if ok else self.failed).append(label)
        return ok

    def fail(self, label: str, note: str = "") -> None:
        self.failed.append(label)

    def observe(self, name: str, value) -> None:
        self.obs.append((name, canon(value)))


def _cb(x) -> bool:
    """Concrete truth value; z3 terms over constants (harness-side predicates evaluated
    on concrete replay values) are simplified."""
    if z3.is_expr(x):
        r = z3.simplify(x)
        if z3.is_true(r):
            return True
        if z3.is_false(r):
            return False
        raise HarnessError(f"non-constant predicate in concrete mode: {r}")
    return bool(x)


def _leaf_dtypes(dt):
    """Scalar leaf dtypes of one item of `dt` in memory order."""
    if dt.fields is not None:
        out = []
        for name in dt.names:
            out.extend(_leaf_dtypes(dt.fields[name][0]))
        return out
    if dt.shape:
        n = int(_rnp.prod(dt.shape))
        return [dt.base] * n
    return [dt]
