"""Symbolic bytes and strings.

SBytes: concrete length; items are int (0..255), z3 BV8 terms, or IB cells
("byte i of the little-endian two's-complement encoding, width w, of Int term e").
SStr: concrete length; items are int code points or z3 BV32 terms.

The cp1252 tables are generated from the running interpreter's own codec.
"""
from __future__ import annotations

from typing import List, Optional

import z3

from . import engine as E
from .engine import Unsupported, branch, mkbool

CPW = 32  # code point width


class IB:
    """Byte `i` (little endian) of Int term `e` stored in `w` bytes (two's complement)."""

    __slots__ = ("e", "i", "w")

    def __init__(self, e, i: int, w: int) -> None:
        self.e = e
        self.i = i
        self.w = w

    def bv(self):
        return z3.Extract(8 * self.i + 7, 8 * self.i, z3.Int2BV(self.e, 8 * self.w))

    def same(self, o) -> bool:
        return isinstance(o, IB) and o.i == self.i and o.w == self.w and o.e.get_id() == self.e.get_id()


def item_bv(x):
    """BV8 term for a byte item."""
    if isinstance(x, int):
        return z3.BitVecVal(x, 8)
    if isinstance(x, IB):
        return x.bv()
    return x


def item_eq(a, b):
    """Equality of two byte items: bool or z3 Bool."""
    if isinstance(a, int) and isinstance(b, int):
        return a == b
    if isinstance(a, IB) and isinstance(b, IB) and a.i == b.i and a.w == b.w:
        if a.e.get_id() == b.e.get_id():
            return True
        if a.w * 8 >= 32:
            # equality of byte i of two ints: compare via div/mod in LIA
            pass
    if isinstance(a, IB) and isinstance(b, IB):
        return _ib_byte_int(a) == _ib_byte_int(b)
    if isinstance(a, IB) and isinstance(b, int):
        return _ib_byte_int(a) == b
    if isinstance(b, IB) and isinstance(a, int):
        return _ib_byte_int(b) == a
    return item_bv(a) == item_bv(b)


def _ib_byte_int(x: IB):
    """Integer value (0..255) of an IB cell, in linear integer arithmetic."""
    m = x.e % (1 << (8 * x.w))  # two's complement
    return (m / (1 << (8 * x.i))) % 256


def is_concrete_items(items) -> bool:
    return all(isinstance(x, int) for x in items)


def mkbytes(items):
    items = [(_norm_item(x)) for x in items]
    if is_concrete_items(items):
        return bytes(items)
    return SBytes(items)


def _norm_item(x):
    if isinstance(x, int) or isinstance(x, IB):
        return x
    s = z3.simplify(x)
    if z3.is_bv_value(s):
        return s.as_long()
    return s


def items_of(b) -> list:
    if isinstance(b, SBytes):
        return b.items
    if isinstance(b, (bytes, bytearray, memoryview)):
        return list(bytes(b))
    raise TypeError(f"a bytes-like object is required, not '{type(b).__name__}'")


# ---------------------------------------------------------------------------------
# cp1252 tables from the interpreter
# ---------------------------------------------------------------------------------

DEC: List[Optional[int]] = []
for _b in range(256):
    try:
        DEC.append(ord(bytes([_b]).decode("cp1252")))
    except UnicodeDecodeError:
        DEC.append(None)
ENC = {cp: b for b, cp in enumerate(DEC) if cp is not None}
# sanity: the real encoder agrees with the inverted decoder table
for _cp, _b in ENC.items():
    assert chr(_cp).encode("cp1252") == bytes([_b])
SPECIAL_ENC = {cp: b for cp, b in ENC.items() if cp != b}
UNDEC = [b for b in range(256) if DEC[b] is None]
IDENT_BYTES = [b for b in range(256) if DEC[b] == b]


_SPACES = [c for c in range(0x3001) if chr(c).isspace()]


def _norm_encoding(enc: str) -> str:
    import codecs

    return codecs.lookup(enc).name


def _enc_ok_build(cp):
    ident = [z3.ULT(cp, 0x80), z3.And(z3.UGE(cp, 0xA0), z3.ULE(cp, 0xFF))]
    for b in IDENT_BYTES:
        if 0x80 <= b < 0xA0:
            ident.append(cp == b)
    return z3.Or(*ident, *[cp == c for c in SPECIAL_ENC])


def _enc_build(cp):
    r = z3.Extract(7, 0, cp)
    for c, b in SPECIAL_ENC.items():
        r = z3.If(cp == c, z3.BitVecVal(b, 8), r)
    return r


def _dec_ok_build(b):
    if not UNDEC:
        return z3.BoolVal(True)
    return z3.And(*[b != u for u in UNDEC])


def _dec_build(b):
    r = z3.ZeroExt(CPW - 8, b)
    for c, bb in SPECIAL_ENC.items():
        r = z3.If(b == bb, z3.BitVecVal(c, CPW), r)
    return r


# The tables are built once over a placeholder and instantiated by substitution
# (building a 27-deep ITE through the Python API per character dominated run time).
_XC = z3.BitVec("__cp", CPW)
_XB = z3.BitVec("__byte", 8)
_T_ENC_OK = _enc_ok_build(_XC)
_T_ENC = _enc_build(_XC)
_T_DEC_OK = _dec_ok_build(_XB)
_T_DEC = _dec_build(_XB)
_CACHE: dict = {}


def _inst(tag, tmpl, var, arg):
    key = (tag, arg.get_id())
    hit = _CACHE.get(key)
    if hit is not None:
        return hit[1]
    r = z3.simplify(z3.substitute(tmpl, (var, arg)))
    if len(_CACHE) > 200000:
        _CACHE.clear()
    _CACHE[key] = (arg, r)
    return r


def enc_ok_e(cp):
    """z3 Bool: code point is encodable in cp1252."""
    return _inst("eo", _T_ENC_OK, _XC, cp)


def enc_e(cp):
    """z3 BV8: cp1252 byte of an encodable code point."""
    return _inst("e", _T_ENC, _XC, cp)


def dec_ok_e(b):
    return _inst("do", _T_DEC_OK, _XB, b)


def dec_e(b):
    return _inst("d", _T_DEC, _XB, b)


# ---------------------------------------------------------------------------------


class SBytes:
    __slots__ = ("items",)

    def __init__(self, items) -> None:
        self.items = list(items)

    def __len__(self) -> int:
        return len(self.items)

    def __getitem__(self, k):
        if isinstance(k, slice):
            return mkbytes(self.items[k])
        if E.is_symint(k):
            k = k.__index__()
        x = self.items[k]
        if isinstance(x, int):
            return x
        return E.bv_from_field(item_bv(x), False)

    def __iter__(self):
        for i in range(len(self.items)):
            yield self[i]

    def __add__(self, o):
        if isinstance(o, (SBytes, bytes, bytearray)):
            return mkbytes(self.items + items_of(o))
        return NotImplemented

    def __radd__(self, o):
        if isinstance(o, (bytes, bytearray)):
            return mkbytes(list(o) + self.items)
        return NotImplemented

    def __mul__(self, n):
        if isinstance(n, int):
            return mkbytes(self.items * n)
        return NotImplemented

    def eq_e(self, o):
        """z3 Bool / bool of equality with another bytes-like."""
        if not isinstance(o, (SBytes, bytes, bytearray)):
            return False
        oi = items_of(o)
        if len(oi) != len(self.items):
            return False
        conj = []
        for a, b in zip(self.items, oi):
            r = item_eq(a, b)
            if r is True:
                continue
            if r is False:
                return False
            conj.append(r)
        if not conj:
            return True
        return z3.And(*conj) if len(conj) > 1 else conj[0]

    def __eq__(self, o):
        r = self.eq_e(o)
        if isinstance(r, bool):
            return r
        return mkbool(r)

    def __ne__(self, o):
        return E.s_not(self.__eq__(o))

    def __hash__(self) -> int:
        raise Unsupported("hash of symbolic bytes")

    def index(self, sub, start: int = 0, end: Optional[int] = None) -> int:
        sub_items = items_of(sub) if not isinstance(sub, int) else [sub]
        if len(sub_items) != 1 or not isinstance(sub_items[0], int):
            raise Unsupported("SBytes.index with a multi-byte or symbolic needle")
        needle = sub_items[0]
        n = len(self.items) if end is None else min(end, len(self.items))
        for i in range(start, n):
            r = item_eq(self.items[i], needle)
            if r is True:
                return i
            if r is False:
                continue
            if branch(r):
                return i
        raise ValueError("subsection not found")

    def count(self, sub, start: int = 0, end: Optional[int] = None):
        sub_items = items_of(sub) if not isinstance(sub, int) else [sub]
        if len(sub_items) != 1 or not isinstance(sub_items[0], int):
            raise Unsupported("SBytes.count with a multi-byte or symbolic needle")
        needle = sub_items[0]
        n = len(self.items) if end is None else min(end, len(self.items))
        fixed, terms = 0, []
        for i in range(start, n):
            r = item_eq(self.items[i], needle)
            if r is True:
                fixed += 1
            elif r is not False:
                terms.append(z3.If(r.e if isinstance(r, E.SBool) else r, z3.IntVal(1), z3.IntVal(0)))
        if not terms:
            return fixed
        return E.mkint(z3.Sum([z3.IntVal(fixed)] + terms))

    def find(self, sub, start: int = 0, end: Optional[int] = None) -> int:
        try:
            return self.index(sub, start, end)
        except ValueError:
            return -1

    def __contains__(self, sub) -> bool:
        return self.find(sub) >= 0

    def decode(self, encoding: str = "utf-8", errors: str = "strict"):
        name = _norm_encoding(encoding)
        if name == "iso8859-1" and errors == "strict":
            # latin-1 decodes every byte to the code point of the same value
            return mkstr([x if isinstance(x, int) else z3.ZeroExt(CPW - 8, item_bv(x)) for x in self.items])
        if name == "utf-8" and errors == "strict":
            return self._decode_utf8()
        if name != "cp1252" or errors not in ("strict", "surrogateescape"):
            raise Unsupported(f"SBytes.decode({encoding!r}, {errors!r})")
        esc = errors == "surrogateescape"  # PEP 383: an undecodable byte b becomes U+DC00+b
        out = []
        for i, x in enumerate(self.items):
            if isinstance(x, int):
                if DEC[x] is None:
                    if esc:
                        out.append(0xDC00 + x)
                        continue
                    raise UnicodeDecodeError("charmap", bytes([x]), 0, 1, "character maps to <undefined>")
                out.append(DEC[x])
                continue
            b = item_bv(x)
            if not branch(dec_ok_e(b)):
                if esc:
                    out.append(z3.simplify(z3.ZeroExt(CPW - 8, b) + 0xDC00))
                    continue
                raise UnicodeDecodeError("charmap", b"?", 0, 1, f"character maps to <undefined> (symbolic byte {i})")
            out.append(z3.simplify(dec_e(b)))
        return mkstr(out)

    def _decode_utf8(self):
        """Strict UTF-8: the class of every lead byte (and the well-formedness of its
        continuation bytes) is decided symbol by symbol (forks)."""
        items = [x if isinstance(x, int) else item_bv(x) for x in self.items]

        def inr(b, lo, hi):
            if isinstance(b, int):
                return lo <= b <= hi
            return branch(z3.And(z3.UGE(b, lo), z3.ULE(b, hi)))

        def wide(b):
            return b if isinstance(b, int) else z3.ZeroExt(CPW - 8, b)

        def bad(i):
            return UnicodeDecodeError("utf-8", b"?", i, i + 1, f"invalid byte sequence (position {i})")

        out = []
        i, n = 0, len(items)
        while i < n:
            b0 = items[i]
            if inr(b0, 0x00, 0x7F):
                out.append(wide(b0))
                i += 1
                continue
            if inr(b0, 0xC2, 0xDF):
                need, lo2, hi2, mask = 1, 0x80, 0xBF, 0x1F
            elif inr(b0, 0xE0, 0xEF):
                need, mask = 2, 0x0F
                lo2, hi2 = (0xA0, 0xBF) if inr(b0, 0xE0, 0xE0) else ((0x80, 0x9F) if inr(b0, 0xED, 0xED) else (0x80, 0xBF))
            elif inr(b0, 0xF0, 0xF4):
                need, mask = 3, 0x07
                lo2, hi2 = (0x90, 0xBF) if inr(b0, 0xF0, 0xF0) else ((0x80, 0x8F) if inr(b0, 0xF4, 0xF4) else (0x80, 0xBF))
            else:
                raise bad(i)
            if i + need >= n:
                raise bad(i)  # truncated sequence
            cp = wide(b0) & mask
            for k in range(1, need + 1):
                bk = items[i + k]
                lo, hi = (lo2, hi2) if k == 1 else (0x80, 0xBF)
                if not inr(bk, lo, hi):
                    raise bad(i)
                cp = (cp << 6) | (wide(bk) & 0x3F)
            out.append(cp if isinstance(cp, int) else z3.simplify(cp))
            i += need + 1
        return mkstr(out)

    def ljust(self, width, fill=b"\x00"):
        f = items_of(fill)
        return mkbytes(self.items + f * max(0, width - len(self.items)))

    def rjust(self, width, fill=b"\x00"):
        f = items_of(fill)
        return mkbytes(f * max(0, width - len(self.items)) + self.items)

    def startswith(self, prefix):
        p = items_of(prefix)
        if len(p) > len(self.items):
            return False
        return bool(mkbytes(self.items[:len(p)]) == bytes(p) if all(isinstance(x, int) for x in p) else SBytes(self.items[:len(p)]) == SBytes(p))

    def endswith(self, suffix):
        p = items_of(suffix)
        if len(p) > len(self.items):
            return False
        if not p:
            return True
        return bool(SBytes(self.items[-len(p):]) == mkbytes(p))

    def partition(self, sep):
        try:
            i = self.index(sep)
        except ValueError:
            return (self, b"", b"")
        return (mkbytes(self.items[:i]), mkbytes(self.items[i:i + 1]), mkbytes(self.items[i + 1:]))

    def split(self, sep=None, maxsplit=-1):
        if sep is None:
            raise Unsupported("SBytes.split() on whitespace")
        out, rest = [], self
        while maxsplit != 0:
            if not isinstance(rest, SBytes):
                parts = rest.split(sep, maxsplit)
                return out + parts
            a, b, c = rest.partition(sep)
            if len(items_of(b)) == 0:
                break
            out.append(a)
            rest = c
            maxsplit -= 1
        return out + [rest]

    def rstrip(self, chars=None):
        if chars is None:
            raise Unsupported("SBytes.rstrip() on whitespace")
        cs = list(items_of(chars))
        items = list(self.items)
        while items:
            x = items[-1]
            hit = E.s_or(*[item_eq(x, c) if not isinstance(item_eq(x, c), bool) else item_eq(x, c) for c in cs])
            if isinstance(hit, bool):
                if not hit:
                    break
            elif not bool(hit):
                break
            items.pop()
        return mkbytes(items)

    def __bytes__(self):
        raise Unsupported("bytes(SBytes)")

    def __repr__(self) -> str:
        return f"<SBytes len={len(self.items)}>"

    def __format__(self, spec) -> str:
        return repr(self)


def mkstr(items):
    norm = []
    for x in items:
        if not isinstance(x, int):
            x = z3.simplify(x)
            if z3.is_bv_value(x):
                x = x.as_long()
        norm.append(x)
    if all(isinstance(x, int) for x in norm):
        return "".join(chr(x) for x in norm)
    return SStr(norm)


def cp_items(s) -> list:
    if isinstance(s, SStr):
        return s.items
    if isinstance(s, str):
        return [ord(c) for c in s]
    raise TypeError("expected str")


def cp_bv(x):
    return z3.BitVecVal(x, CPW) if isinstance(x, int) else x


class SStr:
    __slots__ = ("items",)

    def __init__(self, items) -> None:
        self.items = list(items)

    def __len__(self) -> int:
        return len(self.items)

    def __getitem__(self, k):
        if isinstance(k, slice):
            return mkstr(self.items[k])
        return mkstr([self.items[k]])

    def __iter__(self):
        for x in self.items:
            yield mkstr([x])

    def __add__(self, o):
        if isinstance(o, (SStr, str)):
            return mkstr(self.items + cp_items(o))
        return NotImplemented

    def __radd__(self, o):
        if isinstance(o, str):
            return mkstr(cp_items(o) + self.items)
        return NotImplemented

    def eq_e(self, o):
        if not isinstance(o, (SStr, str)):
            return False
        oi = cp_items(o)
        if len(oi) != len(self.items):
            return False
        conj = []
        for a, b in zip(self.items, oi):
            if isinstance(a, int) and isinstance(b, int):
                if a != b:
                    return False
                continue
            conj.append(cp_bv(a) == cp_bv(b))
        if not conj:
            return True
        return z3.And(*conj) if len(conj) > 1 else conj[0]

    def __eq__(self, o):
        r = self.eq_e(o)
        if isinstance(r, bool):
            return r
        return mkbool(r)

    def __ne__(self, o):
        return E.s_not(self.__eq__(o))

    def __hash__(self) -> int:
        raise Unsupported("hash of a symbolic string")

    def encode(self, encoding: str = "utf-8", errors: str = "strict"):
        name = _norm_encoding(encoding)
        if name == "iso8859-1" and errors == "strict":
            out = []
            for i, x in enumerate(self.items):
                if isinstance(x, int):
                    if x > 255:
                        raise UnicodeEncodeError("latin-1", "?", 0, 1, "ordinal not in range(256)")
                    out.append(x)
                    continue
                if not branch(z3.ULT(x, 256)):
                    raise UnicodeEncodeError("latin-1", "?", 0, 1, f"ordinal not in range(256) (symbolic char {i})")
                out.append(z3.simplify(z3.Extract(7, 0, x)))
            return mkbytes(out)
        if name != "cp1252" or errors not in ("strict", "surrogateescape"):
            raise Unsupported(f"SStr.encode({encoding!r}, {errors!r})")
        esc = errors == "surrogateescape"  # PEP 383: a lone surrogate U+DC80..U+DCFF becomes the byte cp-0xDC00
        out = []
        for i, x in enumerate(self.items):
            if isinstance(x, int):
                if x not in ENC:
                    if esc and 0xDC80 <= x <= 0xDCFF:
                        out.append(x - 0xDC00)
                        continue
                    raise UnicodeEncodeError("charmap", "?", 0, 1, "character maps to <undefined>")
                out.append(ENC[x])
                continue
            if not branch(enc_ok_e(x)):
                if esc and branch(z3.And(z3.UGE(x, 0xDC80), z3.ULE(x, 0xDCFF))):
                    out.append(z3.simplify(z3.Extract(7, 0, x - 0xDC00)))
                    continue
                raise UnicodeEncodeError("charmap", "?", 0, 1, f"character maps to <undefined> (symbolic char {i})")
            out.append(z3.simplify(enc_e(x)))
        return mkbytes(out)

    # -- searching / splitting: every comparison with a symbolic character forks ------
    def _eq_char(self, x, c: int) -> bool:
        if isinstance(x, int):
            return x == c
        return branch(x == c)

    def find(self, sub, start=0, end=None):
        sub_items = cp_items(sub)
        n = len(self.items) if end is None else min(end, len(self.items))
        m = len(sub_items)
        if m == 0:
            return start
        for i in range(start, n - m + 1):
            ok = True
            for j, c in enumerate(sub_items):
                x = self.items[i + j]
                if isinstance(c, int):
                    if not self._eq_char(x, c):
                        ok = False
                        break
                else:
                    if not bool(mkbool(cp_bv(x) == cp_bv(c))):
                        ok = False
                        break
            if ok:
                return i
        return -1

    def index(self, sub, start=0, end=None):
        i = self.find(sub, start, end)
        if i < 0:
            raise ValueError("substring not found")
        return i

    def __contains__(self, sub):
        return self.find(sub) >= 0

    def startswith(self, prefix, start=0):
        p = cp_items(prefix)
        if len(p) > len(self.items) - start:
            return False
        return bool(mkstr(self.items[start:start + len(p)]) == prefix) if p else True

    def endswith(self, suffix):
        p = cp_items(suffix)
        if len(p) > len(self.items):
            return False
        return bool(mkstr(self.items[len(self.items) - len(p):]) == suffix) if p else True

    def partition(self, sep):
        i = self.find(sep)
        if i < 0:
            return (self, "", "")
        m = len(cp_items(sep))
        return (mkstr(self.items[:i]), mkstr(self.items[i:i + m]), mkstr(self.items[i + m:]))

    def split(self, sep=None, maxsplit=-1):
        if sep is None:
            raise Unsupported("SStr.split() on whitespace")
        out, rest = [], self
        while maxsplit != 0:
            if not isinstance(rest, SStr):
                return out + rest.split(sep, maxsplit)
            a, b, c = rest.partition(sep)
            if len(cp_items(b)) == 0:
                break
            out.append(a)
            rest = c
            maxsplit -= 1
        return out + [rest]

    def _is_space(self, x) -> bool:
        if isinstance(x, int):
            return chr(x).isspace()
        return branch(z3.Or(*[x == c for c in _SPACES]))

    def strip(self, chars=None):
        return self.lstrip(chars).rstrip(chars) if isinstance(self.lstrip(chars), SStr) else self.lstrip(chars).strip(chars)

    def lstrip(self, chars=None):
        items = list(self.items)
        cs = None if chars is None else cp_items(chars)
        while items:
            x = items[0]
            hit = self._is_space(x) if cs is None else any(self._eq_char(x, c) for c in cs)
            if not hit:
                break
            items.pop(0)
        return mkstr(items)

    def rstrip(self, chars=None):
        items = list(self.items)
        cs = None if chars is None else cp_items(chars)
        while items:
            x = items[-1]
            hit = self._is_space(x) if cs is None else any(self._eq_char(x, c) for c in cs)
            if not hit:
                break
            items.pop()
        return mkstr(items)

    def _case(self, upper: bool):
        out = []
        for x in self.items:
            if isinstance(x, int):
                r = (chr(x).upper() if upper else chr(x).lower())
                if len(r) != 1:
                    raise Unsupported("case mapping that changes the length")
                out.append(ord(r))
                continue
            # decide through the solver whether the character is ASCII; beyond ASCII the
            # case tables are not modelled
            if not branch(z3.ULT(x, 128)):
                raise Unsupported("case mapping of a symbolic non-ASCII character")
            lo, hi = (0x61, 0x7A) if upper else (0x41, 0x5A)
            delta = -32 if upper else 32
            out.append(z3.simplify(z3.If(z3.And(z3.UGE(x, lo), z3.ULE(x, hi)), x + delta, x)))
        return mkstr(out)

    def lower(self):
        return self._case(False)

    def upper(self):
        return self._case(True)

    casefold = lower

    def replace(self, old, new, count=-1):
        o, n = cp_items(old), cp_items(new)
        if len(o) != 1:
            raise Unsupported("SStr.replace with a multi-character pattern")
        out = []
        for x in self.items:
            if self._eq_char(x, o[0]) if isinstance(o[0], int) else bool(mkbool(cp_bv(x) == cp_bv(o[0]))):
                out.extend(n)
            else:
                out.append(x)
        return mkstr(out)

    def isspace(self):
        return len(self.items) > 0 and all(self._is_space(x) for x in self.items)

    def __repr__(self) -> str:
        return f"<SStr len={len(self.items)}>"

    __str__ = __repr__

    def __format__(self, spec) -> str:
        return repr(self)
