"""Symbolic bytes and strings.

SBytes: concrete length; items are int (0..255), z3 BV8 terms, or IB cells
("byte i of the little-endian two's-complement encoding, width w, of Int term e").
SStr: concrete length; items are int code points or z3 BV32 terms.

The cp1252 tables are generated from the running interpreter's own codec.
"""
from __future__ import annotations

from typing import List, Optional

import z3

from . import engine as E
from .engine import Unsupported, branch, mkbool

CPW = 32  # code point width


class IB:
    """Byte `i` (little endian) of Int term `e` stored in `w` bytes (two's complement)."""

    __slots__ = ("e", "i", "w")

    def __init__(self, e, i: int, w: int) -> None:
        self.e = e
        self.i = i
        self.w = w

    def bv(self):
        return z3.Extract(8 * self.i + 7, 8 * self.i, z3.Int2BV(self.e, 8 * self.w))

    def same(self, o) -> bool:
        return isinstance(o, IB) and o.i == self.i and o.w == self.w and o.e.get_id() == self.e.get_id()


def item_bv(x):
    """BV8 term for a byte item."""
    if isinstance(x, int):
        return z3.BitVecVal(x, 8)
    if isinstance(x, IB):
        return x.bv()
    return x


def item_eq(a, b):
    """Equality of two byte items: bool or z3 Bool."""
    if isinstance(a, int) and isinstance(b, int):
        return a == b
    if isinstance(a, IB) and isinstance(b, IB) and a.i == b.i and a.w == b.w:
        if a.e.get_id() == b.e.get_id():
            return True
        if a.w * 8 >= 32:
            # equality of byte i of two ints: compare via div/mod in LIA
            pass
    if isinstance(a, IB) and isinstance(b, IB):
        return _ib_byte_int(a) == _ib_byte_int(b)
    if isinstance(a, IB) and isinstance(b, int):
        return _ib_byte_int(a) == b
    if isinstance(b, IB) and isinstance(a, int):
        return _ib_byte_int(b) == a
    return item_bv(a) == item_bv(b)


def _ib_byte_int(x: IB):
    """Integer value (0..255) of an IB cell, in linear integer arithmetic."""
    m = x.e % (1 << (8 * x.w))  # two's complement
    return (m / (1 << (8 * x.i))) % 256


def is_concrete_items(items) -> bool:
    return all(isinstance(x, int) for x in items)


def mkbytes(items):
    items = [(_norm_item(x)) for x in items]
    if is_concrete_items(items):
        return bytes(items)
    return SBytes(items)


def _norm_item(x):
    if isinstance(x, int) or isinstance(x, IB):
        return x
    s = z3.simplify(x)
    if z3.is_bv_value(s):
        return s.as_long()
    return s


def items_of(b) -> list:
    if isinstance(b, SBytes):
        return b.items
    if isinstance(b, (bytes, bytearray, memoryview)):
        return list(bytes(b))
    raise TypeError(f"a bytes-like object is required, not '{type(b).__name__}'")


# ---------------------------------------------------------------------------------
# cp1252 tables from the interpreter
# ---------------------------------------------------------------------------------

DEC: List[Optional[int]] = []
for _b in range(256):
    try:
        DEC.append(ord(bytes([_b]).decode("cp1252")))
    except UnicodeDecodeError:
        DEC.append(None)
ENC = {cp: b for b, cp in enumerate(DEC) if cp is not None}
# sanity: the real encoder agrees with the inverted decoder table
for _cp, _b in ENC.items():
    assert chr(_cp).encode("cp1252") == bytes([_b])
SPECIAL_ENC = {cp: b for cp, b in ENC.items() if cp != b}
UNDEC = [b for b in range(256) if DEC[b] is None]
IDENT_BYTES = [b for b in range(256) if DEC[b] == b]


def _norm_encoding(enc: str) -> str:
    import codecs

    return codecs.lookup(enc).name


def _enc_ok_build(cp):
    ident = [z3.ULT(cp, 0x80), z3.And(z3.UGE(cp, 0xA0), z3.ULE(cp, 0xFF))]
    for b in IDENT_BYTES:
        if 0x80 <= b < 0xA0:
            ident.append(cp == b)
    return z3.Or(*ident, *[cp == c for c in SPECIAL_ENC])


def _enc_build(cp):
    r = z3.Extract(7, 0, cp)
    for c, b in SPECIAL_ENC.items():
        r = z3.If(cp == c, z3.BitVecVal(b, 8), r)
    return r


def _dec_ok_build(b):
    if not UNDEC:
        return z3.BoolVal(True)
    return z3.And(*[b != u for u in UNDEC])


def _dec_build(b):
    r = z3.ZeroExt(CPW - 8, b)
    for c, bb in SPECIAL_ENC.items():
        r = z3.If(b == bb, z3.BitVecVal(c, CPW), r)
    return r


# The tables are built once over a placeholder and instantiated by substitution
# (building a 27-deep ITE through the Python API per character dominated run time).
_XC = z3.BitVec("__cp", CPW)
_XB = z3.BitVec("__byte", 8)
_T_ENC_OK = _enc_ok_build(_XC)
_T_ENC = _enc_build(_XC)
_T_DEC_OK = _dec_ok_build(_XB)
_T_DEC = _dec_build(_XB)
_CACHE: dict = {}


def _inst(tag, tmpl, var, arg):
    key = (tag, arg.get_id())
    hit = _CACHE.get(key)
    if hit is not None:
        return hit[1]
    r = z3.simplify(z3.substitute(tmpl, (var, arg)))
    if len(_CACHE) > 200000:
        _CACHE.clear()
    _CACHE[key] = (arg, r)
    return r


def enc_ok_e(cp):
    """z3 Bool: code point is encodable in cp1252."""
    return _inst("eo", _T_ENC_OK, _XC, cp)


def enc_e(cp):
    """z3 BV8: cp1252 byte of an encodable code point."""
    return _inst("e", _T_ENC, _XC, cp)


def dec_ok_e(b):
    return _inst("do", _T_DEC_OK, _XB, b)


def dec_e(b):
    return _inst("d", _T_DEC, _XB, b)


# ---------------------------------------------------------------------------------


class SBytes:
    __slots__ = ("items",)

    def __init__(self, items) -> None:
        self.items = list(items)

    def __len__(self) -> int:
        return len(self.items)

    def __getitem__(self, k):
        if isinstance(k, slice):
            return mkbytes(self.items[k])
        if E.is_symint(k):
            k = k.__index__()
        x = self.items[k]
        if isinstance(x, int):
            return x
        return E.bv_from_field(item_bv(x), False)

    def __iter__(self):
        for i in range(len(self.items)):
            yield self[i]

    def __add__(self, o):
        if isinstance(o, (SBytes, bytes, bytearray)):
            return mkbytes(self.items + items_of(o))
        return NotImplemented

    def __radd__(self, o):
        if isinstance(o, (bytes, bytearray)):
            return mkbytes(list(o) + self.items)
        return NotImplemented

    def __mul__(self, n):
        if isinstance(n, int):
            return mkbytes(self.items * n)
        return NotImplemented

    def eq_e(self, o):
        """z3 Bool / bool of equality with another bytes-like."""
        if not isinstance(o, (SBytes, bytes, bytearray)):
            return False
        oi = items_of(o)
        if len(oi) != len(self.items):
            return False
        conj = []
        for a, b in zip(self.items, oi):
            r = item_eq(a, b)
            if r is True:
                continue
            if r is False:
                return False
            conj.append(r)
        if not conj:
            return True
        return z3.And(*conj) if len(conj) > 1 else conj[0]

    def __eq__(self, o):
        r = self.eq_e(o)
        if isinstance(r, bool):
            return r
        return mkbool(r)

    def __ne__(self, o):
        return E.s_not(self.__eq__(o))

    __hash__ = None  # type: ignore

    def index(self, sub, start: int = 0, end: Optional[int] = None) -> int:
        sub_items = items_of(sub) if not isinstance(sub, int) else [sub]
        if len(sub_items) != 1 or not isinstance(sub_items[0], int):
            raise Unsupported("SBytes.index with a multi-byte or symbolic needle")
        needle = sub_items[0]
        n = len(self.items) if end is None else min(end, len(self.items))
        for i in range(start, n):
            r = item_eq(self.items[i], needle)
            if r is True:
                return i
            if r is False:
                continue
            if branch(r):
                return i
        raise ValueError("subsection not found")

    def find(self, sub, start: int = 0, end: Optional[int] = None) -> int:
        try:
            return self.index(sub, start, end)
        except ValueError:
            return -1

    def __contains__(self, sub) -> bool:
        return self.find(sub) >= 0

    def decode(self, encoding: str = "utf-8", errors: str = "strict"):
        name = _norm_encoding(encoding)
        if name == "iso8859-1" and errors == "strict":
            # latin-1 decodes every byte to the code point of the same value
            return mkstr([x if isinstance(x, int) else z3.ZeroExt(CPW - 8, item_bv(x)) for x in self.items])
        if name != "cp1252" or errors != "strict":
            raise Unsupported(f"SBytes.decode({encoding!r}, {errors!r})")
        out = []
        for i, x in enumerate(self.items):
            if isinstance(x, int):
                if DEC[x] is None:
                    raise UnicodeDecodeError("charmap", bytes([x]), 0, 1, "character maps to <undefined>")
                out.append(DEC[x])
                continue
            b = item_bv(x)
            if not branch(dec_ok_e(b)):
                raise UnicodeDecodeError("charmap", b"?", 0, 1, f"character maps to <undefined> (symbolic byte {i})")
            out.append(z3.simplify(dec_e(b)))
        return mkstr(out)

    def __bytes__(self):
        raise Unsupported("bytes(SBytes)")

    def __repr__(self) -> str:
        return f"<SBytes len={len(self.items)}>"

    def __format__(self, spec) -> str:
        return repr(self)


def mkstr(items):
    norm = []
    for x in items:
        if not isinstance(x, int):
            x = z3.simplify(x)
            if z3.is_bv_value(x):
                x = x.as_long()
        norm.append(x)
    if all(isinstance(x, int) for x in norm):
        return "".join(chr(x) for x in norm)
    return SStr(norm)


def cp_items(s) -> list:
    if isinstance(s, SStr):
        return s.items
    if isinstance(s, str):
        return [ord(c) for c in s]
    raise TypeError("expected str")


def cp_bv(x):
    return z3.BitVecVal(x, CPW) if isinstance(x, int) else x


class SStr:
    __slots__ = ("items",)

    def __init__(self, items) -> None:
        self.items = list(items)

    def __len__(self) -> int:
        return len(self.items)

    def __getitem__(self, k):
        if isinstance(k, slice):
            return mkstr(self.items[k])
        return mkstr([self.items[k]])

    def __iter__(self):
        for x in self.items:
            yield mkstr([x])

    def __add__(self, o):
        if isinstance(o, (SStr, str)):
            return mkstr(self.items + cp_items(o))
        return NotImplemented

    def __radd__(self, o):
        if isinstance(o, str):
            return mkstr(cp_items(o) + self.items)
        return NotImplemented

    def eq_e(self, o):
        if not isinstance(o, (SStr, str)):
            return False
        oi = cp_items(o)
        if len(oi) != len(self.items):
            return False
        conj = []
        for a, b in zip(self.items, oi):
            if isinstance(a, int) and isinstance(b, int):
                if a != b:
                    return False
                continue
            conj.append(cp_bv(a) == cp_bv(b))
        if not conj:
            return True
        return z3.And(*conj) if len(conj) > 1 else conj[0]

    def __eq__(self, o):
        r = self.eq_e(o)
        if isinstance(r, bool):
            return r
        return mkbool(r)

    def __ne__(self, o):
        return E.s_not(self.__eq__(o))

    def __hash__(self) -> int:
        raise Unsupported("hash of a symbolic string")

    def encode(self, encoding: str = "utf-8", errors: str = "strict"):
        name = _norm_encoding(encoding)
        if name == "iso8859-1" and errors == "strict":
            out = []
            for i, x in enumerate(self.items):
                if isinstance(x, int):
                    if x > 255:
                        raise UnicodeEncodeError("latin-1", "?", 0, 1, "ordinal not in range(256)")
                    out.append(x)
                    continue
                if not branch(z3.ULT(x, 256)):
                    raise UnicodeEncodeError("latin-1", "?", 0, 1, f"ordinal not in range(256) (symbolic char {i})")
                out.append(z3.simplify(z3.Extract(7, 0, x)))
            return mkbytes(out)
        if name != "cp1252" or errors != "strict":
            raise Unsupported(f"SStr.encode({encoding!r}, {errors!r})")
        out = []
        for i, x in enumerate(self.items):
            if isinstance(x, int):
                if x not in ENC:
                    raise UnicodeEncodeError("charmap", "?", 0, 1, "character maps to <undefined>")
                out.append(ENC[x])
                continue
            if not branch(enc_ok_e(x)):
                raise UnicodeEncodeError("charmap", "?", 0, 1, f"character maps to <undefined> (symbolic char {i})")
            out.append(z3.simplify(enc_e(x)))
        return mkbytes(out)

    def __repr__(self) -> str:
        return f"<SStr len={len(self.items)}>"

    __str__ = __repr__

    def __format__(self, spec) -> str:
        return repr(self)
