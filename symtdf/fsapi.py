"""Mode-agnostic file-system API for container harnesses.

SymFSApi  - SymFS (symbolic geometry and contents)
ConcFSApi - a real temporary directory (replay / shim validation on the real build)
Both build pre-state files from the same declarative spec through the independent
reference encoder of symfile.py and expose the same observer interface.
"""
from __future__ import annotations

import os
import shutil as _shutil
import tempfile
from typing import Optional

import z3

from . import engine as E
from . import symfile as SF
from .sbytes import SBytes, items_of, mkbytes


def layout(spec):
    """Compute compact offsets for the slots of a spec (unless overridden).
    -> (T, list of offsets, end-of-data)"""
    n = spec["n"]
    T = SF.HEADER + SF.ENTRY * n
    offs = []
    cur = T
    for s in spec["slots"]:
        base = s["offset"] if "offset" in s else cur
        offs.append(base)
        if s["type"] != 0:
            # the end of data follows the block wherever it was placed (gapped foreign files)
            cur = SF.norm(SF.zt(base) + SF.zt(s["size"]))
    return T, offs, cur


def table_items(spec):
    T, offs, end = layout(spec)
    items = SF.encode_header(spec.get("version", 1), spec.get("n_field", spec["n"]), spec["hdates"], spec.get("r1"), spec.get("r2"))
    if spec.get("signature") is not None:
        items[:16] = list(items_of(spec["signature"]))
    for s, off in zip(spec["slots"], offs):
        o = off if s["type"] != 0 or "offset" in s else end
        items += SF.encode_entry(s["type"], s.get("format", 0), o, s.get("size", 0) if s["type"] != 0 else s.get("size", 0),
                                 s["dates"], s.get("comment", ""), s.get("pad"), s.get("tail"))
    return items, T, offs, end


class Obs:
    """Observer over a file state (symbolic) or file bytes (concrete)."""

    def __init__(self, st=None, data: Optional[bytes] = None, exists=True) -> None:
        self.st = st
        self.data = data
        self.exists = exists

    @property
    def length(self):
        return self.st.length if self.st is not None else len(self.data)

    def byte(self, k):
        if self.st is not None:
            return self.st.load(k)
        return self.data[k]

    def range(self, a, n: int):
        if self.st is not None:
            return mkbytes(self.st.load_range(a, n))
        return self.data[a:a + n]

    def parse(self):
        if self.st is not None:
            return SF.parse_table(self.st)
        return SF.parse_table(_ConcState(self.data))


class _ConcState:
    def __init__(self, data: bytes) -> None:
        self.data = data
        self.length = len(data)

    def load_range(self, a, n):
        chunk = self.data[a:a + n]
        if len(chunk) != n:
            raise ValueError("file too short for its own table")
        return list(chunk)


class SymFSApi:
    mode = "sym"

    def __init__(self, I) -> None:
        self.I = I
        self.fs = SF.SymFS()
        SF.CURRENT = self.fs

    def path(self, name: str):
        return name

    def create(self, name: str, spec: dict) -> None:
        items, T, offs, end = table_items(spec)
        d = self.fs.file(name)
        d.exists = True
        d.cur = SF.State()
        d.cur.put(0, items)
        for s, off in zip(spec["slots"], offs):
            if s["type"] != 0 and s.get("payload") is not None:
                p = s["payload"]
                d.cur.put(off, p if not isinstance(p, (bytes, SBytes)) else list(items_of(p)))
        for off, p in spec.get("extra", []):  # bytes between blocks that no table entry describes
            d.cur.put(off, p if not isinstance(p, (bytes, SBytes)) else list(items_of(p)))
        # the declared end of data is the file length (compact file)
        d.cur.length = SF.norm(spec.get("length", end))
        d.sync()

    def create_raw(self, name: str, content) -> None:
        d = self.fs.file(name)
        d.exists = True
        d.cur = SF.State()
        items = list(items_of(content))
        if items:
            d.cur.put(0, items)
        d.sync()

    def symlink(self, name: str, target: str) -> None:
        self.fs.links[name] = target

    def exists(self, name: str) -> bool:
        return self.fs.file(name).exists

    def obs(self, name: str) -> Obs:
        d = self.fs.file(name)
        return Obs(st=d.committed.copy(), exists=d.exists)

    def pending_clean(self, name: str, handler=None) -> bool:
        d = self.fs.file(name)
        return d.cur.seq == d.committed.seq

    def open_handles(self) -> int:
        return self.fs.open_handles()

    def cleanup(self) -> None:
        SF.CURRENT = None


class ConcFSApi:
    mode = "conc"

    def __init__(self, I) -> None:
        self.I = I
        self.root = tempfile.mkdtemp(prefix="symtdf-replay-")
        self._opened = []

    def path(self, name: str):
        return os.path.join(self.root, name)

    def create(self, name: str, spec: dict) -> None:
        items, T, offs, end = table_items(spec)
        buf = bytearray(bytes(items))
        for s, off in zip(spec["slots"], offs):
            if s["type"] != 0 and s.get("payload") is not None:
                p = bytes(s["payload"])
                if len(buf) < off:
                    buf.extend(b"\x00" * (off - len(buf)))
                buf[off:off + len(p)] = p
        for off, p in spec.get("extra", []):
            p = bytes(p)
            if len(buf) < off:
                buf.extend(b"\x00" * (off - len(buf)))
            buf[off:off + len(p)] = p
        total = spec.get("length", end)
        if len(buf) < total:
            buf.extend(b"\x00" * (total - len(buf)))
        with open(self.path(name), "wb") as fh:
            fh.write(bytes(buf[:total]) if total >= T else bytes(buf))

    def create_raw(self, name: str, content) -> None:
        with open(self.path(name), "wb") as fh:
            fh.write(bytes(content))

    def symlink(self, name: str, target: str) -> None:
        os.symlink(self.path(target), self.path(name))

    def exists(self, name: str) -> bool:
        return os.path.exists(self.path(name))

    def obs(self, name: str) -> Obs:
        p = self.path(name)
        if not os.path.exists(p):
            return Obs(data=b"", exists=False)
        fd = os.open(p, os.O_RDONLY)  # unbuffered, independent of the library's handle
        try:
            chunks = []
            while True:
                c = os.read(fd, 1 << 20)
                if not c:
                    break
                chunks.append(c)
        finally:
            os.close(fd)
        return Obs(data=b"".join(chunks))

    def pending_clean(self, name: str, handler=None) -> bool:
        """No bytes wait in the library's write buffer: after a flush the raw stream
        stands exactly at the buffered position."""
        if handler is None or handler.closed:
            return True
        raw = getattr(handler, "raw", None)
        if raw is None:
            return True
        return raw.tell() == handler.tell()

    def open_handles(self) -> int:
        # handles the library left open on files under root
        n = 0
        try:
            for fdname in os.listdir("/proc/self/fd"):
                try:
                    tgt = os.readlink(f"/proc/self/fd/{fdname}")
                except OSError:
                    continue
                if tgt.startswith(self.root):
                    n += 1
        except OSError:
            pass
        return n

    def cleanup(self) -> None:
        _shutil.rmtree(self.root, ignore_errors=True)
