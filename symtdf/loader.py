"""Load the real basictdf source (current working tree) under the shims.

Every module of /repo/src/basictdf is compiled from its file on each run and exec'd
in a fresh module object whose __builtins__ redirect a handful of imports to the
symbolic shims.  No line of the repository is edited.
"""
from __future__ import annotations

import builtins
import hashlib
import os
import sys
import types
from typing import Dict, Optional

from . import engine as E
from . import shims, symnp
from .sbytes import SBytes, SStr

SRC_ROOT = os.environ.get("BASICTDF_SRC", "/repo/src")


class _IntMeta(type):
    def __instancecheck__(cls, obj):
        # numpy integer scalars (values read out of an array) are not `int`s
        return (isinstance(obj, int) or E.is_symint(obj)) and not E.is_np_scalar(obj)

    def __call__(cls, x=0, *a):
        if E.is_symint(x):
            return E.strip_np(x)
        if isinstance(x, E.SFloat):
            return int(float(x))
        if isinstance(x, symnp.ndarray):
            return x.__int__()
        return int(x, *a)


class IntShim(int, metaclass=_IntMeta):
    pass


class _StrMeta(type):
    def __instancecheck__(cls, obj):
        return isinstance(obj, (str, SStr))

    def __call__(cls, *a, **k):
        return str(*a, **k)


class StrShim(str, metaclass=_StrMeta):
    pass


class _BytesMeta(type):
    def __instancecheck__(cls, obj):
        return isinstance(obj, (bytes, SBytes))

    def __call__(cls, *a, **k):
        return bytes(*a, **k)


class BytesShim(bytes, metaclass=_BytesMeta):
    pass


class _FloatMeta(type):
    def __instancecheck__(cls, obj):
        return isinstance(obj, float)

    def __call__(cls, x=0.0):
        if isinstance(x, E.SFloat):
            return x if x.w == 64 else float(x)
        if isinstance(x, symnp.ndarray):
            return x.__float__()
        return float(x)


class FloatShim(float, metaclass=_FloatMeta):
    pass


import enum as _enum


class _SymEnumMeta(_enum.EnumMeta):
    """Enum lookup by a symbolic value: compared against each member in definition order
    (each comparison is decided, i.e. forks) instead of hashing the symbol."""

    def __call__(cls, value, *a, **k):
        if not a and not k and (E.is_symint(value) or isinstance(value, E.SBool)):
            for m in cls:
                if value == m.value:
                    return m
            raise ValueError(f"{value!r} is not a valid {cls.__qualname__}")
        if not a and not k and E.is_np_scalar(value):
            value = E.strip_np(value)
        return super().__call__(value, *a, **k)


class _SymEnum(_enum.Enum, metaclass=_SymEnumMeta):
    pass


class _SymIntEnum(int, _SymEnum):
    pass


_enum_shim = types.ModuleType("enum")
_enum_shim.__dict__.update({k: v for k, v in _enum.__dict__.items() if not k.startswith("__")})
_enum_shim.Enum = _SymEnum
_enum_shim.IntEnum = _SymIntEnum
_enum_shim.EnumMeta = _SymEnumMeta


class Loader:
    def __init__(self, src_root: Optional[str] = None, path_cls=None, shutil_mod=None) -> None:
        self.src_root = src_root or SRC_ROOT
        self.modules: Dict[str, types.ModuleType] = {}
        if path_cls is None:
            from . import symfile as _SF

            path_cls, shutil_mod = _SF.SymPath, _SF.shutil
        self.path_cls = path_cls
        self.shutil_mod = shutil_mod
        self.sources: Dict[str, str] = {}
        b = dict(builtins.__dict__)
        b["__import__"] = self._import
        b["int"] = IntShim
        b["str"] = StrShim
        b["bytes"] = BytesShim
        b["float"] = FloatShim
        self.builtins = b

    # -- import redirection ----------------------------------------------------------
    def _import(self, name, globals=None, locals=None, fromlist=(), level=0):
        if level:
            pkg = (globals or {}).get("__package__") or ""
            base = pkg.rsplit(".", level - 1)[0] if level > 1 else pkg
            name = f"{base}.{name}" if name else base
        top = name.split(".")[0]
        if top == "numpy":
            return symnp
        if name == "enum":
            return _enum_shim
        if name == "struct":
            return shims.struct
        if name == "io":
            return shims.io
        if name == "datetime":
            return shims.datetime_module
        if name == "pathlib" and self.path_cls is not None:
            m = types.SimpleNamespace(Path=self.path_cls, PurePath=self.path_cls)
            return m
        if name == "shutil" and self.shutil_mod is not None:
            return self.shutil_mod
        if top == "basictdf":
            mod = self.load(name)
            if fromlist:
                return mod
            return self.load("basictdf")
        return builtins.__import__(name, globals, locals, fromlist, level)

    def load(self, name: str) -> types.ModuleType:
        if name in self.modules:
            return self.modules[name]
        parts = name.split(".")
        if name == "basictdf":
            path = os.path.join(self.src_root, "basictdf", "__init__.py")
            is_pkg = True
        else:
            path = os.path.join(self.src_root, *parts) + ".py"
            is_pkg = False
            # make sure the package object exists first (without running __init__'s
            # re-exports before the submodule: mirror normal import order)
        if not os.path.exists(path):
            raise ModuleNotFoundError(f"No module named {name!r} under {self.src_root}")
        with open(path, "r", encoding="utf-8") as fh:
            src = fh.read()
        self.sources[name] = src
        mod = types.ModuleType(name)
        mod.__file__ = path
        mod.__package__ = name if is_pkg else name.rsplit(".", 1)[0]
        if is_pkg:
            mod.__path__ = [os.path.dirname(path)]
        mod.__dict__["__builtins__"] = self.builtins
        self.modules[name] = mod
        if not is_pkg and "basictdf" not in self.modules:
            # package placeholder so that `from basictdf.x import y` inside works
            pkg = types.ModuleType("basictdf")
            pkg.__path__ = [os.path.join(self.src_root, "basictdf")]
            pkg.__package__ = "basictdf"
            pkg.__dict__["__builtins__"] = self.builtins
            self.modules["basictdf"] = pkg
        code = compile(src, path, "exec")
        try:
            exec(code, mod.__dict__)
        except BaseException:
            self.modules.pop(name, None)
            raise
        if not is_pkg:
            setattr(self.modules["basictdf"], parts[-1], mod)
        return mod

    def mod(self, short: str) -> types.ModuleType:
        return self.load(f"basictdf.{short}")


# ---------------------------------------------------------------------------------
# which repository functions were entered (evidence: functions_encoded)
# ---------------------------------------------------------------------------------

_TOOL = 3
_seen: Dict[str, str] = {}
_tracing = False


def start_trace(src_root: Optional[str] = None) -> None:
    global _tracing
    root = os.path.realpath(src_root or SRC_ROOT)
    mon = sys.monitoring
    if _tracing:
        return
    try:
        mon.use_tool_id(_TOOL, "symtdf")
    except ValueError:
        pass

    def on_start(code, offset):
        fn = code.co_filename
        if fn.startswith(root):
            key = f"{os.path.basename(fn)}:{code.co_qualname}"
            if key not in _seen:
                _seen[key] = hashlib.sha1(code.co_code).hexdigest()[:12]
        return mon.DISABLE

    mon.register_callback(_TOOL, mon.events.PY_START, on_start)
    mon.set_events(_TOOL, mon.events.PY_START)
    _tracing = True


def stop_trace() -> Dict[str, str]:
    global _tracing
    if _tracing:
        mon = sys.monitoring
        mon.set_events(_TOOL, 0)
        mon.register_callback(_TOOL, mon.events.PY_START, None)
        try:
            mon.free_tool_id(_TOOL)
        except Exception:
            pass
        _tracing = False
    return dict(_seen)
