"""Environment shims: struct, io.BytesIO, datetime."""
from __future__ import annotations

import datetime as _rdt
import io as _rio
import re
import struct as _rstruct

import z3

from . import engine as E
from .engine import SBVInt, SInt, Unsupported
from .sbytes import IB, SBytes, items_of, mkbytes
from . import symnp


# ---------------------------------------------------------------------------------
# struct
# ---------------------------------------------------------------------------------


class _Struct:
    error = _rstruct.error
    Struct = _rstruct.Struct
    calcsize = staticmethod(_rstruct.calcsize)

    _INT = {"b": ("i1"), "B": "u1", "h": "i2", "H": "u2", "i": "i4", "I": "u4", "l": "i4", "L": "u4", "q": "i8", "Q": "u8"}

    @staticmethod
    def pack(fmt, *vals):
        if all(not isinstance(v, (E.SymIntBase, E.SFloat, SBytes)) for v in vals):
            return _rstruct.pack(fmt, *vals)
        m = re.fullmatch(r"([<=]?)([bBhHiIlLqQ])", fmt)
        if m and len(vals) == 1:
            code = _Struct._INT[m.group(2)]
            v = vals[0]
            lo, hi, k = symnp._int_bounds(code)
            if isinstance(v, SInt):
                if not E.branch(z3.And(v.e >= lo, v.e <= hi)):
                    raise _rstruct.error(f"'{m.group(2)}' format requires {lo} <= number <= {hi}")
                return mkbytes([IB(v.e, i, k // 8) for i in range(k // 8)])
            if isinstance(v, SBVInt):
                ok = z3.And(v.e >= lo, v.e <= hi)
                if not E.branch(ok):
                    raise _rstruct.error(f"'{m.group(2)}' format requires {lo} <= number <= {hi}")
                return mkbytes([z3.Extract(8 * i + 7, 8 * i, v.e) for i in range(k // 8)])
        raise Unsupported(f"struct.pack({fmt!r}) with symbolic arguments")

    @staticmethod
    def unpack(fmt, data):
        if isinstance(data, (bytes, bytearray, memoryview)):
            return _rstruct.unpack(fmt, data)
        items = items_of(data)
        m = re.fullmatch(r"(\d+)s", fmt)
        if m:
            if len(items) != int(m.group(1)):
                raise _rstruct.error(f"unpack requires a buffer of {m.group(1)} bytes")
            return (data,)
        m = re.fullmatch(r"([<=]?)([bBhHiIlLqQ])", fmt)
        if m:
            code = _Struct._INT[m.group(2)]
            if len(items) != int(code[1:]):
                raise _rstruct.error(f"unpack requires a buffer of {code[1:]} bytes")
            return (symnp.leaf_from_bytes(items, code),)
        raise Unsupported(f"struct.unpack({fmt!r}) on symbolic bytes")


struct = _Struct()


# ---------------------------------------------------------------------------------
# io.BytesIO
# ---------------------------------------------------------------------------------


class SymIO:
    """BytesIO over byte items (concrete ints, BV8 terms, IB cells)."""

    def __init__(self, initial=b"") -> None:
        self._items = list(items_of(initial)) if initial is not None else []
        self._pos = 0
        self.closed = False

    def _chk(self):
        if self.closed:
            raise ValueError("I/O operation on closed file.")

    def write(self, data) -> int:
        self._chk()
        if type(data).__name__ in ("OpaquePayload", "Blob"):
            # an opaque payload of symbolic length written to a scratch buffer (the
            # library serialises a block to memory to validate it): the buffer's
            # content is not inspected afterwards, only the fact that writing succeeded
            self._opaque = True
            self._opaque_extra = getattr(self, "_opaque_extra", 0) + data.n  # tell() keeps counting
            return data.n
        if getattr(self, "_opaque", False):
            raise Unsupported("write to a scratch buffer after an opaque payload")
        items = items_of(data)
        if self._pos > len(self._items):
            self._items.extend([0] * (self._pos - len(self._items)))
        self._items[self._pos:self._pos + len(items)] = items
        self._pos += len(items)
        return len(items)

    def read(self, n=-1):
        self._chk()
        if n is None or (isinstance(n, int) and n < 0):
            out = self._items[self._pos:]
        elif E.is_symint(n):
            # a symbolic length is first classified against what is left in the buffer
            # (negative / at least everything / strictly inside) and only then enumerated
            rest = len(self._items) - self._pos
            if n < 0:
                if n == -1:
                    out = self._items[self._pos:]
                else:
                    raise ValueError("read length must be non-negative or -1")
            elif n >= rest:
                out = self._items[self._pos:]
            else:
                out = self._items[self._pos:self._pos + n.__index__()]
        else:
            n = int(n)
            out = self._items[self._pos:self._pos + n]
        self._pos += len(out)
        return mkbytes(out)

    def seek(self, off, whence=0) -> int:
        self._chk()
        if E.is_symint(off):
            off = off.__index__()
        if whence == 0:
            if off < 0:
                raise ValueError(f"negative seek value {off}")
            self._pos = off
        elif whence == 1:
            self._pos = max(0, self._pos + off)
        elif whence == 2:
            self._pos = max(0, len(self._items) + off)
        else:
            raise ValueError(f"invalid whence ({whence}, should be 0, 1 or 2)")
        return self._pos

    def tell(self) -> int:
        self._chk()
        return self._pos + getattr(self, "_opaque_extra", 0)

    def getvalue(self):
        self._chk()
        if getattr(self, "_opaque", False):
            raise Unsupported("getvalue() of a scratch buffer that received an opaque payload")
        return mkbytes(self._items)

    def getbuffer(self):
        raise Unsupported("BytesIO.getbuffer")

    def truncate(self, size=None) -> int:
        self._chk()
        if size is None:
            size = self._pos
        del self._items[size:]
        return size

    def flush(self) -> None:
        self._chk()

    def close(self) -> None:
        self.closed = True

    def readable(self):
        return True

    def writable(self):
        return True

    def seekable(self):
        return True

    def __enter__(self):
        return self

    def __exit__(self, *a):
        self.close()


class _IO:
    BytesIO = SymIO
    UnsupportedOperation = _rio.UnsupportedOperation
    SEEK_SET, SEEK_CUR, SEEK_END = 0, 1, 2

    def __getattr__(self, name):
        if name.startswith("__"):
            raise AttributeError(name)
        return getattr(_rio, name)


io = _IO()


# ---------------------------------------------------------------------------------
# datetime
# ---------------------------------------------------------------------------------


def _secs_of(x):
    if isinstance(x, SymDate):
        return x.secs
    if isinstance(x, _rdt.datetime):
        return int(x.timestamp())
    return None


class SymDate:
    """A datetime at whole-second resolution: `secs` since the epoch (int or proxy)."""

    __slots__ = ("secs",)

    def __init__(self, secs) -> None:
        self.secs = secs

    def timestamp(self):
        return self.secs

    def __eq__(self, o):
        s = _secs_of(o)
        if s is None:
            return False
        r = self.secs == s
        return r

    def __ne__(self, o):
        return E.s_not(self.__eq__(o))

    __hash__ = None  # type: ignore

    # ordering at whole-second resolution (all dates in the harnesses are whole seconds)
    def _ord(self, o, f):
        s = _secs_of(o)
        if s is None:
            return NotImplemented
        return f(self.secs, s)

    def __lt__(self, o):
        return self._ord(o, lambda a, b: a < b)

    def __le__(self, o):
        return self._ord(o, lambda a, b: a <= b)

    def __gt__(self, o):
        return self._ord(o, lambda a, b: a > b)

    def __ge__(self, o):
        return self._ord(o, lambda a, b: a >= b)

    def __repr__(self) -> str:
        return "<SymDate>"

    __str__ = __repr__

    def __format__(self, spec) -> str:
        return "<SymDate>"


NOW_HOOK = None  # Inputs installs: () -> secs proxy


class _DatetimeMeta(type):
    def __instancecheck__(cls, obj):
        return isinstance(obj, (SymDate, _rdt.datetime))

    def __call__(cls, *a, **k):
        d = _rdt.datetime(*a, **k)
        return SymDate(int(d.timestamp()))


class datetime(metaclass=_DatetimeMeta):
    @staticmethod
    def now(tz=None):
        if NOW_HOOK is not None:
            return SymDate(NOW_HOOK())
        return SymDate(int(_rdt.datetime.now().timestamp()))

    @staticmethod
    def fromtimestamp(x, tz=None):
        if isinstance(x, symnp.ndarray):
            x = x.item()
        if isinstance(x, (float,)):
            x = int(x)
        return SymDate(x)

    @staticmethod
    def utcnow():
        return datetime.now()


class _DatetimeModule:
    datetime = datetime
    timedelta = _rdt.timedelta
    date = _rdt.date
    timezone = _rdt.timezone


datetime_module = _DatetimeModule()
