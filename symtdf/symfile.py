"""SymFile / SymFS: the file the container works on, with symbolic geometry.

A file is a (possibly symbolic) length plus
  low  : cells at concrete addresses (header, jump table, anything written at a concrete
         position), each tagged with the sequence number of the write that produced it;
  high : layers written at symbolic addresses or with symbolic length
         (block payloads, the bulk move of remove_block), newest last.
Byte sources of layers: a list of byte items, an opaque payload (uninterpreted function
index -> byte) or a blob = a range of an earlier snapshot.

Buffering contract (probed on the real BufferedRandom): data written through a handle is
guaranteed to be visible to an independent observer only after the next flush / truncate /
close of that handle (a seek or read may or may not flush: inside the buffered window it is
a pointer move).  The observer (`committed`) is what the oracles read - the adversarial
choice: nothing is visible before it must be.
"""
from __future__ import annotations

import io as _rio
import itertools
from typing import Dict, List, Optional

import z3

from . import engine as E
from .engine import SInt, Unsupported, mkint
from .sbytes import IB, SBytes, items_of, mkbytes


def zt(x):
    """z3 Int term of an int / SInt."""
    if isinstance(x, bool):
        return z3.IntVal(int(x))
    if isinstance(x, int):
        return z3.IntVal(x)
    if isinstance(x, SInt):
        return x.e
    if isinstance(x, E.SBVInt):
        return z3.BV2Int(x.e, True)
    if z3.is_expr(x):
        return x
    raise TypeError(f"not an integer: {type(x).__name__}")


def norm(x):
    """int when concrete, SInt otherwise."""
    if isinstance(x, int) and not isinstance(x, bool):
        return x
    return mkint(zt(x))


def is_c(x) -> bool:
    return isinstance(x, int)


class OpaquePayload:
    """`n` bytes whose content is an uninterpreted function of the index."""

    def __init__(self, fn, n, name: str = "") -> None:
        self.fn = fn
        self.n = norm(n)
        self.name = name

    def byte(self, j):
        return self.fn(zt(j))


class Blob:
    """Bytes [start, start+n) of an earlier snapshot of a file."""

    def __init__(self, snap: "State", start, n) -> None:
        self.snap = snap
        self.start = norm(start)
        self.n = norm(n)

    def __len__(self):
        if is_c(self.n):
            return self.n
        return E.choose_value(zt(self.n), cap=64)


class Layer:
    __slots__ = ("seq", "addr", "n", "src")

    def __init__(self, seq, addr, n, src) -> None:
        self.seq = seq
        self.addr = norm(addr)
        self.n = norm(n)
        self.src = src  # list of items | OpaquePayload | Blob


class State:
    def __init__(self) -> None:
        self.low: Dict[int, tuple] = {}
        self.high: List[Layer] = []
        self.length = 0
        self.seq = 0
        self.lowmax = 0

    def copy(self) -> "State":
        s = State()
        s.low = dict(self.low)
        s.high = list(self.high)
        s.length = self.length
        s.seq = self.seq
        s.lowmax = self.lowmax
        return s

    # -- writing ---------------------------------------------------------------------
    def put(self, addr, data) -> None:
        """data: list of byte items | OpaquePayload | Blob"""
        self.seq += 1
        addr = norm(addr)
        if isinstance(data, list):
            n = len(data)
            if n == 0:
                return
            if is_c(addr):
                for i, x in enumerate(data):
                    self.low[addr + i] = (self.seq, x)
                self.lowmax = max(self.lowmax, addr + n)
            else:
                self.high.append(Layer(self.seq, addr, n, data))
        else:
            n = data.n
            if is_c(n) and n == 0:
                return
            self.high.append(Layer(self.seq, addr, n, data))
        end = norm(zt(addr) + zt(n))
        if is_c(end) and is_c(self.length):
            self.length = max(self.length, end)
        else:
            if E.branch(zt(end) > zt(self.length)):
                self.length = end

    # -- reading -----------------------------------------------------------------------
    def _covers(self, layer: Layer, k) -> bool:
        kz = zt(k)
        c = z3.And(zt(layer.addr) <= kz, kz < zt(layer.addr) + zt(layer.n))
        return E.branch(c)

    def _may_overlap(self, layer: Layer, a, n) -> bool:
        az = zt(a)
        c = z3.And(zt(layer.addr) < az + zt(n), zt(layer.addr) + zt(layer.n) > az)
        c = z3.simplify(c)
        if z3.is_false(c):
            return False
        if z3.is_true(c):
            return True
        k = E.ctx().lookup(c)
        if k is not None:
            return k
        r = E.ctx().check(c)
        if r == "unknown":
            raise E.Inconclusive("overlap query unknown")
        if r == "unsat":
            E.ctx().remember(c, False)
            return False
        return True

    def _layer_value(self, layer: Layer, k):
        j = norm(zt(k) - zt(layer.addr))
        src = layer.src
        if isinstance(src, list):
            if not is_c(j):
                j = E.choose_value(zt(j), cap=64)
            return src[j]
        if isinstance(src, OpaquePayload):
            return z3.simplify(src.byte(j))
        if isinstance(src, Blob):
            return src.snap.load(norm(zt(src.start) + zt(j)))
        raise TypeError("bad layer source")

    def load(self, k, skip_layers=None):
        """Byte at address k (int or SInt): int | BV8 term | IB cell."""
        k = norm(k)
        if not is_c(k):
            if self.lowmax > 0 and E.branch(zt(k) < self.lowmax):
                k = E.choose_value(zt(k), cap=64)
            else:
                for layer in reversed(self.high):
                    if skip_layers is not None and id(layer) in skip_layers:
                        continue
                    if self._covers(layer, k):
                        return self._layer_value(layer, k)
                raise Unsupported("read of a byte no write ever produced (hole / beyond the modelled content)")
        cell = self.low.get(k)
        seq_l = cell[0] if cell else -1
        for layer in reversed(self.high):
            if layer.seq < seq_l:
                break
            if skip_layers is not None and id(layer) in skip_layers:
                continue
            if self._covers(layer, k):
                return self._layer_value(layer, k)
        if cell:
            return cell[1]
        raise Unsupported(f"read of byte {k} that no write ever produced")

    def load_range(self, a, n: int) -> list:
        """n bytes from address a; one overlap query per (layer, range) keeps the
        per-byte work syntactic when no symbolic layer can touch the range."""
        a = norm(a)
        if n == 0:
            return []
        skip = set()
        for layer in self.high:
            if not self._may_overlap(layer, a, n):
                skip.add(id(layer))
        if is_c(a):
            return [self.load(a + i, skip) for i in range(n)]
        return [self.load(norm(zt(a) + i), skip) for i in range(n)]


class FileData:
    def __init__(self, name: str) -> None:
        self.name = name
        self.exists = False
        self.cur = State()
        self.committed = State()
        self.writer: Optional["SymFile"] = None

    def sync(self) -> None:
        self.committed = self.cur.copy()


class SymFS:
    def __init__(self) -> None:
        self.files: Dict[str, FileData] = {}
        self.opened = 0
        self.closed = 0
        self.handles: List["SymFile"] = []
        self.links = {}  # symbolic links: name -> target name

    def resolve(self, name) -> str:
        name = str(name)
        for _ in range(8):
            if name not in self.links:
                return name
            name = self.links[name]
        raise OSError(40, "Too many levels of symbolic links", name)

    def file(self, name) -> FileData:
        name = self.resolve(name)
        if name not in self.files:
            self.files[name] = FileData(name)
        return self.files[name]

    def open_handles(self) -> int:
        return sum(1 for h in self.handles if not h.closed)


CURRENT: Optional[SymFS] = None


def fs() -> SymFS:
    if CURRENT is None:
        raise RuntimeError("no SymFS active")
    return CURRENT


class _Stat:
    def __init__(self, size) -> None:
        self.st_size = size


class SymPath:
    """pathlib.Path over the current SymFS."""

    def __init__(self, *parts) -> None:
        p = parts[0] if parts else "."
        self._name = p._name if isinstance(p, SymPath) else str(p)

    def exists(self) -> bool:
        return fs().file(self._name).exists

    def is_file(self) -> bool:
        return self.exists()

    def open(self, mode="r", *a, **k):
        return SymFile(fs(), fs().file(self._name), mode)

    def stat(self):
        d = fs().file(self._name)
        if not d.exists:
            raise FileNotFoundError(self._name)
        return _Stat(d.committed.length)

    def replace(self, target):
        """os.replace: the file takes the target's name (an existing target is overwritten)"""
        tname = target._name if isinstance(target, SymPath) else str(target)
        if self._name in fs().links:
            raise Unsupported("rename of a symbolic link")
        src = fs().file(self._name)
        if not src.exists:
            raise FileNotFoundError(self._name)
        fs().links.pop(tname, None)
        dst = fs().file(tname)
        dst.exists = True
        dst.cur = src.committed.copy()
        dst.sync()
        src.exists = False
        return SymPath(tname)

    rename = replace

    def is_symlink(self) -> bool:
        return self._name in fs().links

    def unlink(self, missing_ok=False):
        if self._name in fs().links:
            del fs().links[self._name]
            return
        d = fs().file(self._name)
        if not d.exists and not missing_ok:
            raise FileNotFoundError(self._name)
        d.exists = False

    @property
    def name(self):
        return self._name.rsplit("/", 1)[-1]

    @property
    def suffix(self):
        n = self.name
        i = n.rfind(".")
        return n[i:] if 0 < i < len(n) - 1 else ""

    @property
    def suffixes(self):
        return [self.suffix] if self.suffix else []

    @property
    def stem(self):
        n = self.name
        return n[: len(n) - len(self.suffix)] if self.suffix else n

    def with_suffix(self, suffix):
        base = self._name[: len(self._name) - len(self.suffix)] if self.suffix else self._name
        return SymPath(base + suffix)

    def with_name(self, name):
        return SymPath((self._name.rsplit("/", 1)[0] + "/" if "/" in self._name else "") + name)

    def resolve(self, strict=False):
        return self

    def absolute(self):
        return self

    def expanduser(self):
        return self

    def is_dir(self):
        return False

    def touch(self, exist_ok=True):
        d = fs().file(self._name)
        if d.exists and not exist_ok:
            raise FileExistsError(self._name)
        d.exists = True

    @property
    def parent(self):
        return SymPath(self._name.rsplit("/", 1)[0] if "/" in self._name else ".")

    def __truediv__(self, o):
        return SymPath(self._name.rstrip("/") + "/" + str(o))

    def __fspath__(self):
        return self._name

    def __str__(self):
        return self._name

    def __repr__(self):
        return f"SymPath({self._name!r})"

    def __format__(self, spec):
        return self._name

    def __eq__(self, o):
        return isinstance(o, SymPath) and o._name == self._name

    def __hash__(self):
        return hash(self._name)


class _SameFileError(OSError):
    pass


class _Shutil:
    SameFileError = _SameFileError
    Error = OSError

    @staticmethod
    def copyfile(src, dst, *a, **k):
        follow = k.get("follow_symlinks", a[0] if a else True)
        sname = str(src) if not isinstance(src, SymPath) else src._name
        dname = str(dst) if not isinstance(dst, SymPath) else dst._name
        if not follow and sname in fs().links:
            # os.symlink(os.readlink(src), dst)
            if dname in fs().links or fs().file(dname).exists:
                raise FileExistsError(dname)
            fs().links[dname] = fs().links[sname]
            return dst
        s = fs().file(sname)
        d = fs().file(dname)
        if s is d and s.exists:
            raise _SameFileError(f"{sname!r} and {dname!r} are the same file")
        if not s.exists:
            raise FileNotFoundError(s.name)
        d.exists = True
        d.cur = s.committed.copy()
        d.sync()
        return dst

    copy = copyfile
    copy2 = copyfile

    @staticmethod
    def copyfileobj(fsrc, fdst, length=0):
        # everything from the source's current position to its end
        fdst.write(fsrc.read())


shutil = _Shutil()


class SymFile:
    def __init__(self, fsys: SymFS, data: FileData, mode: str) -> None:
        mode = mode.replace("t", "")
        if "b" not in mode:
            raise Unsupported("text-mode open")
        self.fs = fsys
        self.data = data
        self.mode = mode
        self.closed = False
        self.pos = 0
        self.readable_ = "r" in mode or "+" in mode
        self.writable_ = "w" in mode or "+" in mode or "a" in mode or "x" in mode
        if "r" in mode and not data.exists:
            raise FileNotFoundError(f"[Errno 2] No such file or directory: '{data.name}'")
        if "w" in mode:
            data.exists = True
            data.cur = State()
            data.sync()
        if "x" in mode:
            if data.exists:
                raise FileExistsError(data.name)
            data.exists = True
        if self.writable_:
            data.writer = self
        fsys.opened += 1
        fsys.handles.append(self)

    # -- helpers ------------------------------------------------------------------------
    def _chk(self):
        if self.closed:
            raise ValueError("I/O operation on closed file.")

    def _state(self) -> State:
        return self.data.cur if (self.data.writer is self or self.data.writer is None or self.data.writer.closed) else self.data.committed

    def _sync(self):
        if self.writable_:
            self.data.sync()

    @property
    def name(self):
        return self.data.name

    # -- API ------------------------------------------------------------------------------
    def read(self, n=-1):
        self._chk()
        if not self.readable_:
            raise _rio.UnsupportedOperation("read")
        st = self._state()
        pos = self.pos
        if n is None or (is_c(n) and n < 0):
            cnt = norm(zt(st.length) - zt(pos))
            if is_c(cnt) and is_c(pos) and not st.high:
                items = [st.load(pos + i) for i in range(max(0, cnt))]
                self.pos = pos + max(0, cnt)
                return mkbytes(items)
            if E.branch(zt(cnt) <= 0):
                return b""
            blob = Blob(st.copy(), pos, cnt)
            self.pos = st.length
            return blob
        if is_c(n) and n > 4096 and (st.high or not is_c(pos) or not is_c(st.length)):
            # a large read from a file with symbolic layers: kept as an opaque range
            # (materialising tens of thousands of symbolic bytes serves no purpose)
            n = SInt(z3.IntVal(n))
        if not is_c(n):
            # a read of symbolic length: an opaque range of the current content
            avail = zt(st.length) - zt(pos)
            cnt = norm(z3.If(zt(n) <= avail, zt(n), z3.If(avail < 0, z3.IntVal(0), avail)))
            if is_c(cnt):
                n = cnt
            else:
                if E.branch(zt(cnt) <= 0):
                    return b""
                blob = Blob(st.copy(), pos, cnt)
                self.pos = norm(zt(pos) + zt(cnt))
                return blob
        if n == 0:
            return b""
        end = norm(zt(pos) + n)
        if is_c(end) and is_c(st.length):
            k = max(0, min(n, st.length - pos))
        elif E.branch(zt(end) <= zt(st.length)):
            k = n
        else:
            k = E.choose_value(z3.If(zt(st.length) - zt(pos) < 0, z3.IntVal(0), zt(st.length) - zt(pos)), cap=n + 1)
        items = st.load_range(pos, k)
        self.pos = norm(zt(pos) + k)
        return mkbytes(items)

    def write(self, data):
        self._chk()
        if not self.writable_:
            raise _rio.UnsupportedOperation("write")
        st = self.data.cur
        if isinstance(data, (OpaquePayload, Blob)):
            n = data.n
            st.put(self.pos, data)
        else:
            items = list(items_of(data))
            n = len(items)
            st.put(self.pos, items)
        self.pos = norm(zt(self.pos) + zt(n))
        return n

    def seek(self, off, whence=0):
        self._chk()
        if whence == 0:
            tgt = norm(off)
        elif whence == 1:
            tgt = norm(zt(self.pos) + zt(off))
        elif whence == 2:
            tgt = norm(zt(self._state().length) + zt(off))
        else:
            raise ValueError(f"invalid whence ({whence}, should be 0, 1 or 2)")
        # a buffered file refuses a negative target position with EINVAL (io.BytesIO raises
        # ValueError instead; the library only seeks on files)
        if (is_c(tgt) and tgt < 0) or (not is_c(tgt) and E.branch(zt(tgt) < 0)):
            raise OSError(22, "Invalid argument")
        self.pos = tgt
        return self.pos

    def tell(self):
        self._chk()
        return self.pos

    def truncate(self, size=None):
        self._chk()
        if not self.writable_:
            raise _rio.UnsupportedOperation("truncate")
        st = self.data.cur
        if size is None:
            size = self.pos
        size = norm(size)
        if is_c(size) and is_c(st.length):
            st.length = size
            for k in [k for k in st.low if k >= size]:
                del st.low[k]
        else:
            st.length = size
        self._sync()
        return size

    def flush(self):
        self._chk()
        self._sync()

    def close(self):
        if not self.closed:
            self._sync()
            self.closed = True
            self.fs.closed += 1

    def readable(self):
        return self.readable_

    def writable(self):
        return self.writable_

    def seekable(self):
        return True

    def fileno(self):
        raise Unsupported("fileno")

    def __enter__(self):
        return self

    def __exit__(self, *a):
        self.close()


# ---------------------------------------------------------------------------------
# independent reference encoder / parser of header and jump table (layout only;
# written from the format, shares no code with basictdf)
# ---------------------------------------------------------------------------------

SIGNATURE = bytes.fromhex("824b6041d31184ca6000b6ac16680c08")
HEADER = 64
ENTRY = 288


def int_cells(v, width: int) -> list:
    """little-endian two's-complement cells of an int / SInt / SBVInt"""
    if isinstance(v, int):
        return list((v & ((1 << (8 * width)) - 1)).to_bytes(width, "little"))
    if isinstance(v, SInt):
        return [IB(v.e, i, width) for i in range(width)]
    if isinstance(v, E.SBVInt):
        return [z3.simplify(z3.Extract(8 * i + 7, 8 * i, v.e)) for i in range(width)]
    raise TypeError(type(v))


def text_cells(s, width: int, tail=None) -> list:
    from .sbytes import cp_items, enc_e, cp_bv, ENC

    out = []
    for c in cp_items(s) if not isinstance(s, (bytes, SBytes)) else []:
        out.append(ENC[c] if isinstance(c, int) else enc_e(cp_bv(c)))
    if isinstance(s, (bytes, SBytes)):
        out = list(items_of(s))
    out.append(0)
    pad = width - len(out)
    if tail is not None:
        out.extend(list(items_of(tail))[:pad])
        pad = width - len(out)
    out.extend([0] * pad)
    return out


def encode_header(version, n_entries, dates, reserved1=None, reserved2=None) -> list:
    out = list(SIGNATURE)
    out += int_cells(version, 4) + int_cells(n_entries, 4)
    out += list(items_of(reserved1)) if reserved1 is not None else [0] * 8
    for d in dates:
        out += int_cells(d, 4)
    out += list(items_of(reserved2)) if reserved2 is not None else [0] * 20
    assert len(out) == HEADER
    return out


def encode_entry(type_, format_, offset, size, dates, comment, pad=None, tail=None) -> list:
    out = int_cells(type_, 4) + int_cells(format_, 4) + int_cells(offset, 4) + int_cells(size, 4)
    for d in dates:
        out += int_cells(d, 4)
    out += list(items_of(pad)) if pad is not None else [0] * 4
    out += text_cells(comment, 256, tail)
    assert len(out) == ENTRY, len(out)
    return out


def decode_int(items, signed: bool):
    from . import symnp

    return symnp.leaf_from_bytes(list(items), ("i" if signed else "u") + str(len(items)))


def decode_text(items):
    """Independent fixed-width text reader: bytes before the first NUL (concrete NUL
    positions only; symbolic bytes are decided through the solver)."""
    out = []
    for x in items:
        if isinstance(x, int):
            if x == 0:
                break
            out.append(x)
            continue
        from .sbytes import item_eq

        c = item_eq(x, 0)
        if c is True or (c is not False and E.branch(c)):
            break
        out.append(x)
    return mkbytes(out)


def parse_table(st: State):
    """Independent parse of header + jump table from a file state -> dict.
    Raises ValueError when the structure itself is broken."""
    hdr = st.load_range(0, HEADER)
    sig = mkbytes(hdr[:16])
    version = decode_int(hdr[16:20], False)
    n = decode_int(hdr[20:24], True)
    if not isinstance(n, int):
        n = E.choose_value(zt(n), cap=32)
    dates = [decode_int(hdr[32 + 4 * i:36 + 4 * i], True) for i in range(3)]
    entries = []
    for i in range(n):
        raw = st.load_range(HEADER + ENTRY * i, ENTRY)
        t = decode_int(raw[0:4], False)
        if not isinstance(t, int):
            t = E.choose_value(zt(t), cap=32)
        entries.append({
            "type": t,
            "format": decode_int(raw[4:8], False),
            "offset": decode_int(raw[8:12], True),
            "size": decode_int(raw[12:16], True),
            "dates": [decode_int(raw[16 + 4 * k:20 + 4 * k], True) for k in range(3)],
            "pad": mkbytes(raw[28:32]),
            "comment": decode_text(raw[32:288]),
            "raw": mkbytes(raw),
        })
    return {"signature": sig, "version": version, "n": n, "dates": dates, "entries": entries, "length": st.length,
            "reserved1": mkbytes(hdr[24:32]), "reserved2": mkbytes(hdr[44:64])}
