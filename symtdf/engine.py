"""symtdf engine: proxy-object symbolic execution over z3, fork by re-execution.

The real basictdf functions are executed by CPython; the values that flow through
them are the proxies defined here (SBool, SInt, SBVInt, SFloat) and in sbytes.py /
symnp.py.  ``bool(SBool)`` is the fork point: z3 decides which outcomes are feasible
under the current path condition, one is taken, the other is queued as a decision
prefix and explored by re-running the (deterministic) harness.
"""
from __future__ import annotations

import itertools
import os
import time
from typing import Any, Callable, List, Optional

import z3

MAX_DECISIONS_PER_PATH = int(os.environ.get("SYMTDF_MAX_DECISIONS", "6000"))
_DEBUG_SLOW = float(os.environ.get("SYMTDF_DEBUG_SLOW", "0") or 0)
QUERY_TIMEOUT_MS = int(os.environ.get("SYMTDF_QUERY_TIMEOUT_MS", "30000"))


class EngineSignal(BaseException):
    """Base of engine control flow; BaseException so `except Exception` in the code
    under test cannot swallow it."""


class PathAbort(EngineSignal):
    """The current path is infeasible / pruned (assume(False))."""


class Unsupported(EngineSignal):
    """The code under test left the modelled subset (UnsupportedInShim)."""


class Inconclusive(EngineSignal):
    """The solver answered unknown / timed out."""


class Stats:
    def __init__(self) -> None:
        self.queries = 0
        self.solver_s = 0.0
        self.branches = 0
        self.paths = 0
        self.unknown = 0
        self.cache_hits = 0

    def add(self, o: "Stats") -> None:
        self.queries += o.queries
        self.solver_s += o.solver_s
        self.branches += o.branches
        self.paths += o.paths
        self.unknown += o.unknown
        self.cache_hits += o.cache_hits


_FV_CACHE: dict = {}
_QCACHE: dict = {}

# cross-solver sampling: every _XRATE-th decided sliced query is written as SMT-LIB2 to
# _XDIR together with z3's verdict; runner.cross_check re-decides the sample with the
# other installed solvers (z3 4.8.12 binary, cvc5 binary)
_XDIR = os.environ.get("SYMTDF_XDUMP_DIR", "")
_XRATE = int(os.environ.get("SYMTDF_XDUMP_RATE", "0") or 0)
_XCAP = int(os.environ.get("SYMTDF_XDUMP_CAP", "40") or 40)
_xcount = [0, 0]


def _xdump(rel, assumptions, verdict: str) -> None:
    _xcount[0] += 1
    if _xcount[0] % _XRATE or _xcount[1] >= _XCAP:
        return
    _xcount[1] += 1
    try:
        sv = z3.Solver()
        if rel:
            sv.add(*rel)
        sv.add(*assumptions)
        text = sv.to_smt2()
        with open(os.path.join(_XDIR, f"q{os.getpid()}_{_xcount[1]:04d}.smt2"), "w") as fh:
            fh.write(f"; expected: {verdict}\n" + text)
    except Exception:  # noqa: BLE001 - sampling must never disturb the run
        pass


def free_syms(e) -> frozenset:
    """Names of the uninterpreted constants / functions occurring in a term.  Memoised for
    every visited sub-term (post-order), keyed by AST id with the term kept alive by the
    cache entry: nested codec terms share most of their sub-terms."""
    k = e.get_id()
    hit = _FV_CACHE.get(k)
    if hit is not None:
        return hit[1]
    if len(_FV_CACHE) > 600000:
        _FV_CACHE.clear()
    stack = [(e, None)]
    while stack:
        t, kids = stack.pop()
        i = t.get_id()
        if i in _FV_CACHE:
            continue
        if kids is None:
            if z3.is_app(t):
                ch = t.children()
            elif z3.is_quantifier(t):
                ch = [t.body()]
            else:
                ch = []
            pending = [c for c in ch if c.get_id() not in _FV_CACHE]
            if pending:
                stack.append((t, ch))
                stack.extend((c, None) for c in pending)
                continue
            kids = ch
        out = set()
        if z3.is_app(t) and t.decl().kind() == z3.Z3_OP_UNINTERPRETED:
            out.add(t.decl().name())
        for c in kids:
            out |= _FV_CACHE[c.get_id()][1]
        _FV_CACHE[i] = (t, frozenset(out))
    return _FV_CACHE[k][1]


class Ctx:
    """State of one path execution.

    Queries are sliced KLEE-style: only the path constraints that share symbols
    (transitively) with the queried condition are handed to the solver.  This is sound
    because the path condition is kept satisfiable at all times and constraint groups
    over disjoint symbols are satisfiable independently.  Full models (witnesses,
    counterexamples) come from the un-sliced incremental solver."""

    def __init__(self, prefix: List[Any]) -> None:
        self.prefix = list(prefix)
        self.pos = 0
        self.taken: List[Any] = []
        self._solver = None
        self._synced = 0
        self.pc: List[z3.BoolRef] = []
        self.known: dict = {}
        self.pending: List[List[Any]] = []  # new prefixes discovered on this path
        self.stats = Stats()
        self.fresh = itertools.count()
        self.notes: List[str] = []
        self.prefs: List[Any] = []
        # union-find over symbol names -> constraint groups
        self._parent: dict = {}
        self._group: dict = {}  # root -> list of constraints
        self._nosym: List[Any] = []

    # -- union-find ---------------------------------------------------------------
    def _find(self, x):
        p = self._parent
        if x not in p:
            p[x] = x
            self._group[x] = []
            return x
        r = x
        while p[r] != r:
            r = p[r]
        while p[x] != r:
            p[x], x = r, p[x]
        return r

    def _union(self, a, b):
        ra, rb = self._find(a), self._find(b)
        if ra == rb:
            return ra
        ga, gb = self._group[ra], self._group[rb]
        if len(ga) < len(gb):
            ra, rb, ga, gb = rb, ra, gb, ga
        self._parent[rb] = ra
        ga.extend(gb)
        del self._group[rb]
        return ra

    def _relevant(self, syms) -> list:
        roots = {}
        for s_ in syms:
            if s_ in self._parent:
                roots[self._find(s_)] = True
        out = list(self._nosym)
        for r in roots:
            out.extend(self._group[r])
        return out

    # -- solver plumbing ------------------------------------------------------
    @property
    def solver(self):
        """The un-sliced incremental solver, brought up to date lazily."""
        if self._solver is None:
            self._solver = z3.Solver()
            self._solver.set("timeout", QUERY_TIMEOUT_MS)
        if self._synced < len(self.pc):
            self._solver.add(*self.pc[self._synced:])
            self._synced = len(self.pc)
        return self._solver

    def sliced_solver(self, syms):
        s_ = z3.Solver()
        s_.set("timeout", QUERY_TIMEOUT_MS)
        rel = self._relevant(syms)
        if rel:
            s_.add(*rel)
        return s_

    def _groups_of(self, parts):
        """Partition terms into groups that share symbols (directly or through the path
        condition's constraint groups)."""
        key_of = {}
        buckets: dict = {}
        for t in parts:
            syms = free_syms(t)
            roots = set()
            for s_ in syms:
                roots.add(("r", self._find(s_)) if s_ in self._parent else ("s", s_))
            # merge buckets that share a root
            hit = [k for k in list(buckets) if buckets[k][0] & roots]
            if not hit:
                buckets[len(key_of)] = (set(roots), [t])
                key_of[len(key_of)] = True
            else:
                base = hit[0]
                buckets[base][0].update(roots)
                buckets[base][1].append(t)
                for k in hit[1:]:
                    buckets[base][0].update(buckets[k][0])
                    buckets[base][1].extend(buckets[k][1])
                    del buckets[k]
        return [v[1] for v in buckets.values()]

    def check(self, *assumptions, full: bool = False) -> str:
        # A large conjunction / disjunction over independent symbols (a 255-character
        # label comparison) is decided group by group instead of as one monolithic query:
        # And(...) is satisfiable iff every independent group is, Or(...) iff some group is.
        if not full and len(assumptions) == 1:
            a = assumptions[0]
            neg = z3.is_not(a)
            inner = a.arg(0) if neg else a
            kind = "and" if z3.is_and(inner) else ("or" if z3.is_or(inner) else None)
            if kind and inner.num_args() >= 6:
                parts = [z3.Not(c) for c in inner.children()] if neg else list(inner.children())
                if neg:
                    kind = "or" if kind == "and" else "and"
                groups = self._groups_of(parts)
                if len(groups) > 1:
                    anyunknown = False
                    for g in groups:
                        e = (z3.And(*g) if kind == "and" else z3.Or(*g)) if len(g) > 1 else g[0]
                        r = self.check(e)
                        if kind == "and" and r == "unsat":
                            return "unsat"
                        if kind == "or" and r == "sat":
                            return "sat"
                        if r == "unknown":
                            anyunknown = True
                    if anyunknown:
                        return "unknown"
                    return "sat" if kind == "and" else "unsat"
        t0 = time.perf_counter()
        if full or not assumptions:
            r = self.solver.check(*assumptions)
        else:
            syms = set()
            for a in assumptions:
                syms |= free_syms(a)
            rel = self._relevant(syms)
            # process-wide result cache: the same sliced query recurs on sibling paths
            key = (frozenset(x.get_id() for x in rel), tuple(a.get_id() for a in assumptions))
            hit = _QCACHE.get(key)
            if hit is not None:
                self.stats.cache_hits += 1
                return hit[0]
            s_ = z3.Solver()
            s_.set("timeout", QUERY_TIMEOUT_MS)
            if rel:
                s_.add(*rel)
            r = s_.check(*assumptions)
            if str(r) != "unknown":
                if len(_QCACHE) > 300000:
                    _QCACHE.clear()
                _QCACHE[key] = (str(r), rel, assumptions)  # keeps the terms (and their ids) alive
                if _XRATE:
                    _xdump(rel, assumptions, str(r))
        dt = time.perf_counter() - t0
        self.stats.solver_s += dt
        self.stats.queries += 1
        if _DEBUG_SLOW and dt > _DEBUG_SLOW:
            import sys as _sys
            nrel = len(self.pc) if (full or not assumptions) else len(rel)
            print(f"SLOWQ {dt:.3f}s full={full or not assumptions} nrel={nrel} npc={len(self.pc)} "
                  f"q={str(assumptions[0])[:150] if assumptions else ''}", file=_sys.stderr)
        s = str(r)
        if s == "unknown":
            self.stats.unknown += 1
        return s

    def model_for(self, *assumptions):
        """Model of the whole path condition plus assumptions.  A fresh, non-incremental
        solver is used: z3 then applies its preprocessing pipeline, which is an order
        of magnitude faster on many independent constraints than the incremental core."""
        t0 = time.perf_counter()
        try:
            sv = z3.Solver()
            sv.set("timeout", QUERY_TIMEOUT_MS * 4)
            if self.pc:
                sv.add(*self.pc)
            if assumptions:
                sv.add(*assumptions)
            self.stats.queries += 1
            r = str(sv.check())
            if r == "unknown" and not self.prefs:
                r2, m2 = self._model_by_groups(assumptions)
                if r2 == "sat":
                    return r2, m2
            if r != "sat":
                return r, None
            if self.prefs:
                # soft preferences (small replay inputs): all at once, else greedily
                sv.push()
                sv.add(*self.prefs)
                self.stats.queries += 1
                if str(sv.check()) == "sat":
                    return "sat", sv.model()
                sv.pop()
                for pz in self.prefs:
                    sv.push()
                    sv.add(pz)
                    self.stats.queries += 1
                    if str(sv.check()) != "sat":
                        sv.pop()
                sv.check()
            return "sat", sv.model()
        finally:
            dt = time.perf_counter() - t0
            self.stats.solver_s += dt
            if _DEBUG_SLOW and dt > _DEBUG_SLOW:
                import sys as _sys
                print(f"SLOWMODEL {dt:.3f}s npc={len(self.pc)}", file=_sys.stderr)

    def _model_by_groups(self, assumptions):
        """Fallback for full models: solve every independent constraint group on its own,
        pin the values and obtain one z3 model from a final trivial query."""
        groups = self._groups_of(list(self.pc) + list(assumptions))
        final = z3.Solver()
        final.set("timeout", QUERY_TIMEOUT_MS * 4)
        for g in groups:
            sv = z3.Solver()
            sv.set("timeout", QUERY_TIMEOUT_MS * 2)
            sv.add(*g)
            self.stats.queries += 1
            r = str(sv.check())
            if r != "sat":
                return r, None
            m = sv.model()
            raw = False
            pins = []
            for d in m.decls():
                if d.arity() == 0:
                    pins.append(d() == m[d])
                else:
                    raw = True
            final.add(*(g if raw else pins))
        r = str(final.check())
        return (r, final.model()) if r == "sat" else (r, None)

    def add(self, cond) -> None:
        self.pc.append(cond)
        syms = list(free_syms(cond))
        if not syms:
            self._nosym.append(cond)
            return
        r = self._find(syms[0])
        for s_ in syms[1:]:
            r = self._union(r, s_)
        self._group[self._find(syms[0])].append(cond)

    def remember(self, cond, val: bool) -> None:
        # the term is stored with the verdict: AST ids are only unique among live terms
        self.known[cond.get_id()] = (cond, val)
        if z3.is_not(cond):
            inner = cond.arg(0)
            self.known[inner.get_id()] = (inner, not val)

    def lookup(self, cond) -> Optional[bool]:
        hit = self.known.get(cond.get_id())
        return None if hit is None else hit[1]


CUR: Optional[Ctx] = None


def ctx() -> Ctx:
    if CUR is None:
        raise RuntimeError("no symbolic context active")
    return CUR


def active() -> bool:
    return CUR is not None


def fresh_name(base: str) -> str:
    return f"{base}!{next(ctx().fresh)}"


def _simp(e):
    return z3.simplify(e)


def branch(cond) -> bool:
    """Decide a symbolic condition: fork point."""
    c = ctx()
    cond = _simp(cond)
    if z3.is_true(cond):
        return True
    if z3.is_false(cond):
        return False
    k = c.lookup(cond)
    if k is not None:
        return k
    c.stats.branches += 1
    if c.stats.branches > MAX_DECISIONS_PER_PATH:
        raise Inconclusive(f"more than {MAX_DECISIONS_PER_PATH} decisions on one path (unbounded loop over a symbolic quantity?)")
    if c.pos < len(c.prefix):
        d = c.prefix[c.pos]
        c.pos += 1
        if not isinstance(d, bool):
            raise RuntimeError(f"non-deterministic harness: expected bool decision, got {d!r}")
        c.taken.append(d)
        c.add(cond if d else z3.Not(cond))
        c.remember(cond, d)
        return d
    t = c.check(cond)
    f = c.check(z3.Not(cond))
    if t == "unknown" or f == "unknown":
        raise Inconclusive(f"branch: solver unknown on {str(cond)[:200]}")
    if t == "sat" and f == "sat":
        c.pending.append(c.taken + [False])
        d = True
    elif t == "sat":
        d = True
    elif f == "sat":
        d = False
    else:
        raise PathAbort("path condition became unsatisfiable")
    c.pos += 1
    c.taken.append(d)
    c.add(cond if d else z3.Not(cond))
    c.remember(cond, d)
    return d


def choose_value(term, cap: int = 40) -> int:
    """Concretise an integer-valued term exhaustively: every feasible value becomes
    its own path (unlike realisation to a single sample)."""
    c = ctx()
    term = _simp(term)
    if z3.is_int_value(term):
        return term.as_long()
    if z3.is_bv_value(term):
        return term.as_signed_long()
    kv = c.known.get(("v", term.get_id()))
    if kv is not None:
        return kv[1]
    c.stats.branches += 1
    if c.pos < len(c.prefix):
        d = c.prefix[c.pos]
        c.pos += 1
        if isinstance(d, bool) or not isinstance(d, tuple):
            raise RuntimeError(f"non-deterministic harness: expected value decision, got {d!r}")
        v = d[1]
        c.taken.append(d)
        c.add(term == v)
        c.known[("v", term.get_id())] = (term, v)
        return v
    vals = []
    sl = c.sliced_solver(free_syms(term))
    while True:
        t0 = time.perf_counter()
        r = str(sl.check())
        c.stats.solver_s += time.perf_counter() - t0
        c.stats.queries += 1
        if r == "unknown":
            raise Inconclusive("choose_value: solver unknown")
        if r != "sat":
            break
        m = sl.model()
        mv = m.eval(term, model_completion=True)
        v = mv.as_signed_long() if z3.is_bv_value(mv) else mv.as_long()
        vals.append(v)
        if len(vals) > cap:
            raise Unsupported(
                f"choose_value: more than {cap} feasible values for {str(term)[:120]}"
            )
        sl.add(term != v)
    if not vals:
        raise PathAbort("no feasible value")
    vals.sort()
    for v in vals[1:]:
        c.pending.append(c.taken + [("v", v)])
    v = vals[0]
    c.pos += 1
    c.taken.append(("v", v))
    c.add(term == v)
    c.known[("v", term.get_id())] = (term, v)
    return v


def assume(cond) -> None:
    """Add a precondition.  Aborts the path when it cannot be met."""
    c = ctx()
    e = as_z3_bool(cond)
    e = _simp(e)
    if z3.is_true(e):
        return
    if z3.is_false(e):
        raise PathAbort("assume(False)")
    if z3.is_and(e):
        for ch in e.children():
            assume(ch)
        return
    if c.lookup(e) is True:
        return
    if c.pos >= len(c.prefix):
        # keep the invariant "the path condition is satisfiable" (sliced query);
        # while a recorded prefix is being replayed this was established before
        r = c.check(e)
        if r == "unknown":
            raise Inconclusive("assume: solver unknown")
        if r == "unsat":
            raise PathAbort("assumption unsatisfiable")
    c.add(e)
    c.remember(e, True)


# ---------------------------------------------------------------------------------
# Proxies
# ---------------------------------------------------------------------------------


def as_z3_bool(x):
    if isinstance(x, SBool):
        return x.e
    if isinstance(x, bool):
        return z3.BoolVal(x)
    if z3.is_expr(x):
        return x
    # numpy.bool_ and friends
    return z3.BoolVal(bool(x))


class SBool:
    __slots__ = ("e",)

    def __init__(self, e) -> None:
        self.e = e

    def __bool__(self) -> bool:
        return branch(self.e)

    def __and__(self, o):
        return SBool(z3.And(self.e, as_z3_bool(o)))

    __rand__ = __and__

    def __or__(self, o):
        return SBool(z3.Or(self.e, as_z3_bool(o)))

    __ror__ = __or__

    def __invert__(self):
        return SBool(z3.Not(self.e))

    def __eq__(self, o):
        if isinstance(o, (SBool, bool)):
            return SBool(self.e == as_z3_bool(o))
        return False

    def __ne__(self, o):
        if isinstance(o, (SBool, bool)):
            return SBool(self.e != as_z3_bool(o))
        return True

    __hash__ = None  # type: ignore

    def __repr__(self) -> str:
        return "<SBool>"

    def __format__(self, spec) -> str:
        return "<SBool>"


def mkbool(e):
    """SBool unless the expression simplifies to a constant."""
    if isinstance(e, bool):
        return e
    e = _simp(e)
    if z3.is_true(e):
        return True
    if z3.is_false(e):
        return False
    return SBool(e)


def s_and(*xs):
    out = []
    for x in xs:
        if isinstance(x, SBool):
            out.append(x.e)
        elif z3.is_expr(x):
            out.append(x)
        elif not x:
            return False
    if not out:
        return True
    return mkbool(z3.And(*out))


def s_or(*xs):
    out = []
    for x in xs:
        if isinstance(x, SBool):
            out.append(x.e)
        elif z3.is_expr(x):
            out.append(x)
        elif x:
            return True
    if not out:
        return False
    return mkbool(z3.Or(*out))


def s_not(x):
    if isinstance(x, SBool):
        return mkbool(z3.Not(x.e))
    if z3.is_expr(x):
        return mkbool(z3.Not(x))
    return not x


class SymIntBase:
    """Common base so that the loader's isinstance(x, int) accepts both kinds."""
    def __round__(self, ndigits=None):
        # an integer rounded to a non-negative number of decimals is itself
        if ndigits is None or (isinstance(ndigits, int) and ndigits >= 0):
            return self
        raise Unsupported("round() of a symbolic integer to negative digits")

    def __trunc__(self):
        return self

    def __floor__(self):
        return self

    def __ceil__(self):
        return self


    __slots__ = ()

    def __repr__(self) -> str:
        return "<symint>"

    __str__ = __repr__

    def __format__(self, spec) -> str:
        return "<symint>"


def _int_term(x):
    """z3 Int term for x (int | SInt | SBVInt)."""
    if isinstance(x, bool):
        return z3.IntVal(int(x))
    if isinstance(x, int):
        return z3.IntVal(x)
    if isinstance(x, SInt):
        return x.e
    if isinstance(x, SBVInt):
        return z3.BV2Int(x.e, True)
    try:
        import numpy as _np

        if isinstance(x, _np.integer):
            return z3.IntVal(int(x))
    except Exception:
        pass
    return None


class SInt(SymIntBase):
    """Python int as a z3 Int term (container geometry: offsets, sizes, lengths)."""

    __slots__ = ("e",)

    def __init__(self, e) -> None:
        self.e = e

    # arithmetic
    def _bin(self, o, f, rev=False):
        t = _int_term(o)
        if t is None:
            return NotImplemented
        return mkint(f(t, self.e) if rev else f(self.e, t))

    def __add__(self, o):
        return self._bin(o, lambda a, b: a + b)

    def __radd__(self, o):
        return self._bin(o, lambda a, b: a + b, True)

    def __sub__(self, o):
        return self._bin(o, lambda a, b: a - b)

    def __rsub__(self, o):
        return self._bin(o, lambda a, b: a - b, True)

    def __mul__(self, o):
        return self._bin(o, lambda a, b: a * b)

    def __rmul__(self, o):
        return self._bin(o, lambda a, b: a * b, True)

    def __floordiv__(self, o):
        if isinstance(o, int) and o > 0:
            return mkint(self.e / o)
        raise Unsupported("SInt // non-positive-constant")

    def __mod__(self, o):
        if isinstance(o, int) and o > 0:
            return mkint(self.e % o)
        raise Unsupported("SInt % non-positive-constant")

    def __neg__(self):
        return mkint(-self.e)

    def __pos__(self):
        return self

    def __abs__(self):
        return mkint(z3.If(self.e >= 0, self.e, -self.e))

    # comparisons
    def _cmp(self, o, f):
        t = _int_term(o)
        if t is None:
            return NotImplemented
        return mkbool(f(self.e, t))

    def __lt__(self, o):
        return self._cmp(o, lambda a, b: a < b)

    def __le__(self, o):
        return self._cmp(o, lambda a, b: a <= b)

    def __gt__(self, o):
        return self._cmp(o, lambda a, b: a > b)

    def __ge__(self, o):
        return self._cmp(o, lambda a, b: a >= b)

    def __eq__(self, o):
        t = _int_term(o)
        if t is None:
            if isinstance(o, float):
                return mkbool(z3.ToReal(self.e) == z3.RealVal(o)) if o == o and abs(o) != float("inf") else False
            return False
        return mkbool(self.e == t)

    def __ne__(self, o):
        r = self.__eq__(o)
        return s_not(r)

    def __bool__(self) -> bool:
        return branch(self.e != 0)

    def __index__(self) -> int:
        return choose_value(self.e)

    def __int__(self) -> int:
        return choose_value(self.e)

    def __hash__(self) -> int:
        return hash(choose_value(self.e))


def mkint(e):
    e = _simp(e)
    if z3.is_int_value(e):
        return e.as_long()
    return SInt(e)


BVW = 64


def _bv_term(x):
    """64-bit signed BV term for x (int | SBVInt), None otherwise."""
    if isinstance(x, bool):
        return z3.BitVecVal(int(x), BVW)
    if isinstance(x, int):
        if -(1 << 63) <= x < (1 << 63):
            return z3.BitVecVal(x, BVW)
        return None
    if isinstance(x, SBVInt):
        return x.e
    try:
        import numpy as _np

        if isinstance(x, _np.integer):
            return z3.BitVecVal(int(x), BVW)
    except Exception:
        pass
    return None


class SBVInt(SymIntBase):
    """A Python int known to fit in 64 bits, as a 64-bit signed bit-vector.  Used for
    every integer that is carried by bytes (header fields, channel numbers, links):
    stays inside QF_BV, no int2bv reasoning."""

    __slots__ = ("e",)

    def __init__(self, e) -> None:
        assert e.size() == BVW
        self.e = e

    def __add__(self, o):
        if isinstance(o, SInt):
            return SInt(z3.BV2Int(self.e, True)) + o
        t = _bv_term(o)
        if t is None:
            return NotImplemented
        return mkbv(self.e + t)

    __radd__ = __add__

    def __sub__(self, o):
        if isinstance(o, SInt):
            return SInt(z3.BV2Int(self.e, True)) - o
        t = _bv_term(o)
        if t is None:
            return NotImplemented
        return mkbv(self.e - t)

    def __rsub__(self, o):
        t = _bv_term(o)
        if t is None:
            return NotImplemented
        return mkbv(t - self.e)

    def __mul__(self, o):
        t = _bv_term(o)
        if t is None:
            return NotImplemented
        return mkbv(self.e * t)

    __rmul__ = __mul__

    def __neg__(self):
        return mkbv(-self.e)

    def _cmp(self, o, f):
        if isinstance(o, SInt):
            return f(z3.BV2Int(self.e, True), o.e)
        t = _bv_term(o)
        if t is None:
            return None
        return f(self.e, t)

    def __lt__(self, o):
        r = self._cmp(o, lambda a, b: a < b)
        return NotImplemented if r is None else mkbool(r)

    def __le__(self, o):
        r = self._cmp(o, lambda a, b: a <= b)
        return NotImplemented if r is None else mkbool(r)

    def __gt__(self, o):
        r = self._cmp(o, lambda a, b: a > b)
        return NotImplemented if r is None else mkbool(r)

    def __ge__(self, o):
        r = self._cmp(o, lambda a, b: a >= b)
        return NotImplemented if r is None else mkbool(r)

    def __eq__(self, o):
        r = self._cmp(o, lambda a, b: a == b)
        if r is None:
            return False
        return mkbool(r)

    def __ne__(self, o):
        return s_not(self.__eq__(o))

    def __bool__(self) -> bool:
        return branch(self.e != 0)

    def __index__(self) -> int:
        return choose_value(self.e)

    def __int__(self) -> int:
        return choose_value(self.e)

    def __hash__(self) -> int:
        return hash(choose_value(self.e))


def mkbv(e):
    e = _simp(e)
    if z3.is_bv_value(e):
        return e.as_signed_long()
    return SBVInt(e)


def bv_from_field(bits, signed: bool):
    """k-bit field value -> Python-int proxy (extend to 64 bits)."""
    k = bits.size()
    if k == BVW:
        return mkbv(bits)
    return mkbv(z3.SignExt(BVW - k, bits) if signed else z3.ZeroExt(BVW - k, bits))


class NpInt(int):
    """A concrete integer read out of a numpy array: behaves as an int, but - like a
    numpy integer scalar - is not an instance of the builtin `int` for the code under test."""
    np_code = "i8"


class NpSInt(SInt):
    np_code = "i8"


class NpSBVInt(SBVInt):
    np_code = "i8"


def as_np_scalar(x, code: str):
    """Mark an integer leaf handed out by the numpy model as a numpy scalar.  Only values
    read directly from an array carry the mark; results of arithmetic on them are plain."""
    if isinstance(x, bool) or isinstance(x, (NpInt, NpSInt, NpSBVInt)):
        return x
    if isinstance(x, int):
        v = NpInt(x)
    elif isinstance(x, SBVInt):
        v = NpSBVInt(x.e)
    elif isinstance(x, SInt):
        v = NpSInt(x.e)
    else:
        return x
    v.np_code = code
    return v


def is_np_scalar(x) -> bool:
    return isinstance(x, (NpInt, NpSInt, NpSBVInt))


def strip_np(x):
    if isinstance(x, NpInt):
        return int(x)
    if isinstance(x, NpSBVInt):
        return SBVInt(x.e)
    if isinstance(x, NpSInt):
        return SInt(x.e)
    return x


def is_symint(x) -> bool:
    return isinstance(x, SymIntBase)


# -- floats -------------------------------------------------------------------------


class SFloat:
    """IEEE-754 value carried as raw bits (32 or 64).  isnan / isinf / equality are
    bit-vector predicates; no FP theory on the codec paths."""

    __slots__ = ("w", "b")

    def __init__(self, w: int, b) -> None:
        self.w = w
        self.b = b  # z3 BitVec(w)

    @property
    def _exp_frac(self):
        if self.w == 32:
            return z3.Extract(30, 23, self.b), z3.Extract(22, 0, self.b)
        return z3.Extract(62, 52, self.b), z3.Extract(51, 0, self.b)

    def isnan_e(self):
        ex, fr = self._exp_frac
        return z3.And(ex == (1 << ex.size()) - 1, fr != 0)

    def isinf_e(self):
        ex, fr = self._exp_frac
        return z3.And(ex == (1 << ex.size()) - 1, fr == 0)

    def iszero_e(self):
        return z3.Extract(self.w - 2, 0, self.b) == 0

    def fp_eq_e(self, o: "SFloat"):
        """IEEE ==: neither NaN, and same bits or both zeros."""
        if o.w != self.w:
            raise Unsupported("comparison of symbolic floats of different width")
        return z3.And(
            z3.Not(self.isnan_e()),
            z3.Not(o.isnan_e()),
            z3.Or(self.b == o.b, z3.And(self.iszero_e(), o.iszero_e())),
        )

    def __eq__(self, o):
        of = to_sfloat(o, self.w)
        if of is None:
            return False
        return mkbool(self.fp_eq_e(of))

    def __ne__(self, o):
        return s_not(self.__eq__(o))

    __hash__ = None  # type: ignore

    def __float__(self):
        b = _simp(self.b)
        if z3.is_bv_value(b):
            return bits_to_float(b.as_long(), self.w)
        raise Unsupported("float() of a symbolic float")

    def __repr__(self) -> str:
        return "<symfloat>"

    __str__ = __repr__

    def __format__(self, spec) -> str:
        return "<symfloat>"


def float_to_bits(x: float, w: int) -> int:
    import numpy as np

    with np.errstate(all="ignore"):
        if w == 32:
            return int(np.array(x, dtype="<f4").view("<u4"))
        return int(np.array(x, dtype="<f8").view("<u8"))


def bits_to_float(b: int, w: int):
    import numpy as np

    if w == 32:
        return np.array(b, dtype="<u4").view("<f4")[()]
    return np.array(b, dtype="<u8").view("<f8")[()]


def to_sfloat(x, w: int) -> Optional[SFloat]:
    if isinstance(x, SFloat):
        return x
    if isinstance(x, (int, float)) and not isinstance(x, bool):
        return SFloat(w, z3.BitVecVal(float_to_bits(float(x), w), w))
    try:
        import numpy as np

        if isinstance(x, (np.floating, np.integer)):
            return SFloat(w, z3.BitVecVal(float_to_bits(float(x), w), w))
    except Exception:
        pass
    return None


# ---------------------------------------------------------------------------------
# Exploration driver
# ---------------------------------------------------------------------------------


class Failure:
    def __init__(self, label: str, model_inputs: dict, prefix: List[Any], note: str = "") -> None:
        self.label = label
        self.model_inputs = model_inputs
        self.prefix = prefix
        self.note = note


class PathResult:
    def __init__(self) -> None:
        self.status = "ok"  # ok | abort | unsupported | inconclusive | error
        self.detail = ""
        self.proved: List[str] = []
        self.failed: List[Failure] = []
        self.witness: Optional[dict] = None
        self.extra_witnesses: List[dict] = []
        self.observations: List[tuple] = []
        self.goals: set = set()
        self.taken: List[Any] = []
        self.soft_inconclusive: List[str] = []  # obligations refuted by a model that cannot be replayed


PATH_BUDGET_S = float(os.environ.get("SYMTDF_PATH_BUDGET_S", "150"))


class _PathTimeout(Inconclusive):
    pass


def _alarm_handler(signum, frame):
    raise _PathTimeout(f"path time budget of {PATH_BUDGET_S:.0f}s exhausted")


def run_path(fn: Callable[[Any], None], make_inputs: Callable[[Ctx], Any], prefix: List[Any], want_witness: bool = True):
    """Run the harness once along `prefix`.  Returns (PathResult, ctx).

    Reachability: the path condition is satisfiable by construction - every decision
    was found feasible by the solver when it was scheduled, every assumption is
    checked when added, proven lemmas are implied.  A full model (witness) is only
    computed when asked for (witness replay sample)."""
    global CUR
    c = Ctx(prefix)
    res = PathResult()
    CUR = c
    inputs = make_inputs(c)
    inputs._res = res
    import signal as _signal
    import threading as _threading

    use_alarm = PATH_BUDGET_S > 0 and _threading.current_thread() is _threading.main_thread()
    if use_alarm:
        old_handler = _signal.signal(_signal.SIGALRM, _alarm_handler)
        _signal.setitimer(_signal.ITIMER_REAL, PATH_BUDGET_S)
    try:
        fn(inputs)
        if not want_witness:
            r = "skip"
        else:
            r, m = c.model_for()
        if r == "skip":
            pass
        elif r == "sat":
            try:
                res.witness = inputs.model_inputs(m)
                res.observations = inputs.eval_observations(m)
            except Exception as e:  # noqa: BLE001 - e.g. a payload too large to materialise
                # the path is decided; only its concrete witness replay is skipped
                res.witness = None
                res.detail = f"witness not materialised: {e}"
        elif r == "unknown":
            # every obligation of the path has been decided and every branch taken was found
            # feasible when it was scheduled; only the optional full model for the witness
            # replay could not be produced in time: the path counts, it is just not replayed
            res.witness = None
            res.detail = "witness query unknown (path decided, not replayed)"
        else:
            res.status = "abort"
            res.detail = "unsat path condition at end"
    except PathAbort as e:
        res.status = "abort"
        res.detail = str(e)
    except Unsupported as e:
        res.status = "unsupported"
        res.detail = str(e)
        try:
            r, m = c.model_for()
            if r == "sat":
                res.witness = inputs.model_inputs(m)
                res.extra_witnesses = inputs.diverse_inputs(5, seed=len(c.taken))
        except Exception:
            pass
    except Inconclusive as e:
        res.status = "inconclusive"
        res.detail = str(e)
    finally:
        if use_alarm:
            _signal.setitimer(_signal.ITIMER_REAL, 0)
            _signal.signal(_signal.SIGALRM, old_handler)
        try:
            inputs.cleanup()
        except Exception:
            pass
        CUR = None
    res.taken = list(c.taken)
    c.stats.paths = 1
    return res, c


def explore(fn, make_inputs, max_paths: int = 100000, witness_policy=None, stop_after_failures: int = 24, time_budget: float = 0.0):
    """Depth-first exploration of all paths of a harness.  Once `stop_after_failures`
    paths have produced counterexample candidates the instance stops early: a violation
    is already in hand and enumerating every further failing path adds nothing."""
    work: List[List[Any]] = [[]]
    results: List[PathResult] = []
    stats = Stats()
    nfail = 0
    t_start = time.time()
    while work:
        if nfail >= stop_after_failures:
            break
        if time_budget and time.time() - t_start > time_budget:
            r = PathResult()
            r.status = "inconclusive"
            r.detail = f"instance time budget of {time_budget:.0f}s exhausted after {len(results)} paths ({len(work)} pending)"
            results.append(r)
            break
        prefix = work.pop()
        ww = True if witness_policy is None else witness_policy(len(results))
        res, c = run_path(fn, make_inputs, prefix, ww)
        stats.add(c.stats)
        results.append(res)
        if res.failed:
            nfail += 1
        work.extend(c.pending)
        # shallowest alternative first: when a loop with a symbolic trip count unrolls
        # without end, its early exits are reached before its deep unrollings
        work.sort(key=len, reverse=True)
        if len(results) >= max_paths:
            r = PathResult()
            r.status = "inconclusive"
            r.detail = f"path budget {max_paths} exhausted"
            results.append(r)
            break
    return results, stats
