"""C08 - files are only modified inside an explicitly write-enabled context.

Control dimension: every well-formed sequence (bounded length) of allow_write / enter /
normal exit / exit by exception, i.e. the reachable access modes, is enumerated
explicitly; from the final mode every public mutator and every public reader is run once.
Data dimension (solver): the file's geometry and contents are symbolic, so "the bytes
are unchanged" is proved for all files of the enumerated shape.
"""
import itertools

from symtdf import symfile as SF
from symtdf.runner import Instance

from . import container as C
from .cstep import unchanged, apply_op

PROPERTY = "C08"
META = {
    "explanation": "explicit reachability over the access-mode alphabet {allow_write, enter, exit, exit-by-exception} (bounded depth) x one real mutator or reader call; file contents/geometry symbolic, unchanged-bytes proved by z3 (table bytes, every payload byte through a Skolem index, length)",
    "bounds": {"quick": {"mode_event_sequences": "all well-formed sequences of length <= 4", "file": "N=2, one live block (events), symbolic contents", "operations": "8 mutators, 23 readers (comparison also with an operand that cannot be opened; a mutation is attempted after every comparison)"},
               "thorough": {"mode_event_sequences": "all well-formed sequences of length <= 5", "file": "N=2 with 1 live and N=3 with 2 live blocks", "operations": "8 mutators, 23 readers (comparison also with an operand that cannot be opened; a mutation is attempted after every comparison)"}},
    "outside_bounds": ["longer mode-event sequences", "re-entrant nesting of the same object's context", "concurrent use from several threads"],
    "assumptions": ["SymFS handle accounting (opened/closed)", "decoders replaced by recorders (what is decoded is C01's subject)"],
}

EVENTS = "AEXR"  # allow_write, enter, exit, exit by exception
# G: a reader (has_events) called through the object; outside a context it opens and closes
# an implicit one of its own


def sequences(maxlen, with_reader=False):
    out = [()]
    alphabet = EVENTS + ("G" if with_reader else "")
    for n in range(1, maxlen + 1):
        for seq in itertools.product(alphabet, repeat=n):
            inside = False
            ok = True
            for e in seq:
                if e == "E":
                    if inside:
                        ok = False
                        break
                    inside = True
                elif e in "XR":
                    if not inside:
                        ok = False
                        break
                    inside = False
            if ok and (not with_reader or "G" in seq):
                out.append(seq)
    return out if not with_reader else out[1:]


def expected_mode(seq):
    """-> (inside, writable): writable iff the current context was entered after an
    allow_write() issued since the previous exit.  A reader called outside a context
    while a permission is pending makes the next context's mode unspecified (the
    library spends the permission on the reader's implicit context; the property allows
    either): writable is then None."""
    armed = False
    inside = False
    writable = False
    for e in seq:
        if e == "A":
            armed = True
        elif e == "E":
            inside = True
            writable = armed
        elif e == "G":
            if not inside and armed:
                armed = None
        else:
            inside = False
            writable = False
            armed = False
    return inside, (writable if inside else False)


class _Boom(Exception):
    pass


def drive(tdf, seq):
    for e in seq:
        if e == "A":
            tdf.allow_write()
        elif e == "E":
            tdf.__enter__()
        elif e == "X":
            tdf.__exit__(None, None, None)
        elif e == "G":
            tdf.has_events
        else:
            try:
                raise _Boom()
            except _Boom as ex:
                tdf.__exit__(_Boom, ex, ex.__traceback__)


MUTATORS = ["add_block", "remove_block", "replace_block", "set:data3D", "set:force_and_torque", "set:force_platforms_data", "set:events", "set:emg"]
READERS = ["blocks", "get_block:type", "get_block:absent", "get_block:0", "getitem:0", "data3D", "force_and_torque", "force_platforms_data", "events", "emg",
           "calibrationData", "has_data3D", "has_force_and_torque", "has_events", "has_emg", "has_force_platforms_data", "len", "nBytes", "eq", "eq_broken", "repr", "copy", "getitem:type"]


def case(seq, op, N, live, free_offsets=None):
    def h(I):
        def P(label, cond, note=""):
            return I.prove(f"C08.{label}", cond, note)
        fs = I.fs()
        tb = I.mod("tdfBlock")
        Tdf = I.mod("basictdf").Tdf
        model, spec = C.make_prestate(I, fs, "f.tdf", N, live, free_offsets=free_offsets)
        C.install_recorders(I)
        if op == "eq":
            m2, _ = C.make_prestate(I, fs, "g.tdf", N, live, tag="q")
        if op == "eq_broken":
            # the other operand cannot be opened (not a TDF file): the comparison may raise,
            # but the object it was asked of must come out of it in the mode it was in
            fs.create_raw("g.tdf", I.rawbytes("q.raw", 5))
        pre = fs.obs("f.tdf")
        tdf = Tdf(fs.path("f.tdf"))
        drive(tdf, seq)
        inside, writable = expected_mode(seq)
        handles_before = fs.open_handles()
        P("mode_events_leave_expected_handles_open", handles_before == (1 if inside else 0), f"{handles_before} open after {''.join(seq)}")
        mid = fs.obs("f.tdf")
        exc = None
        res = None
        mut = op in MUTATORS
        try:
            if op == "add_block":
                blk, _ = C.opaque_block(I, 11, "m", budget=[spec["total"]])
                tdf.add_block(blk)
            elif op == "remove_block":
                tdf.remove_block(tb.BlockType(live[0]))
            elif op == "replace_block":
                blk, _ = C.opaque_block(I, live[0], "m", budget=[spec["total"]])
                tdf.replace_block(blk)
            elif op.startswith("set:"):
                name = op[4:]
                blk, _ = C.opaque_block(I, C.SETTERS[name], "m", budget=[spec["total"]])
                setattr(tdf, name, blk)
            elif op == "blocks":
                res = tdf.blocks
            elif op == "get_block:type":
                res = tdf.get_block(tb.BlockType(live[0]))
            elif op == "getitem:type":
                res = tdf[tb.BlockType(live[0])]
            elif op == "get_block:absent":
                res = tdf.get_block(tb.BlockType(13))
            elif op == "get_block:0":
                res = tdf.get_block(0)
            elif op == "getitem:0":
                res = tdf[0]
            elif op == "len":
                res = len(tdf)
            elif op == "nBytes":
                res = tdf.nBytes
            elif op == "eq":
                res = tdf == Tdf(fs.path("g.tdf"))
            elif op == "eq_broken":
                res = tdf == Tdf(fs.path("g.tdf"))
            elif op == "repr":
                res = repr(tdf)
            elif op == "copy":
                res = tdf.copy(fs.path("copy.tdf"))
            else:
                res = getattr(tdf, op)
        except Exception as e:  # noqa: BLE001
            exc = e
        I.observe("exc", type(exc).__name__ if exc else None)
        after = fs.obs("f.tdf")
        if mut and writable is None:
            # unspecified mode (see expected_mode): whatever the library decides, a refusal changes nothing
            I.goal("either")
            if exc is not None:
                unchanged(I, P, fs, pre, model, None, None, N, "u", ".by_forbidden_mutation", name="f.tdf")
        elif mut:
            if writable:
                I.goal("allowed")
                P("mutation_inside_write_context_accepted", exc is None, f"{op}: {type(exc).__name__ if exc else ''}: {exc}" if exc else "")
            else:
                I.goal("forbidden")
                P("mutation_outside_write_context_raises", exc is not None, f"{op} after {''.join(seq) or 'nothing'}")
                unchanged(I, P, fs, pre, model, None, None, N, "u", ".by_forbidden_mutation", name="f.tdf")
        else:
            I.goal("reader")
            unchanged(I, P, fs, pre, model, None, None, N, "u", ".by_reader", name="f.tdf")
            if op == "eq":
                unchanged(I, P, fs, fs.obs("g.tdf"), m2, None, None, N, "v", ".by_reader.other_file", name="g.tdf")
            if op == "nBytes" and exc is None:
                P("reported_size_is_file_size", res == after.length)
            if op in ("eq", "eq_broken") and not inside:
                # ... and a mutation issued afterwards with no context is still refused
                try:
                    tdf.remove_block(tb.BlockType(live[0]))
                    exc3 = None
                except Exception as e:  # noqa: BLE001
                    exc3 = e
                P("mutation_outside_write_context_raises", exc3 is not None, f"remove_block after a comparison, after {''.join(seq) or 'nothing'}")
                unchanged(I, P, fs, pre, model, None, None, N, "w", ".by_forbidden_mutation", name="f.tdf")
        handles_after = fs.open_handles()
        P("implicitly_opened_handles_are_closed", handles_after == handles_before, f"before={handles_before} after={handles_after} ({op})")
        # leaving the mode: everything is closed again and a reader still works
        if inside:
            tdf.__exit__(None, None, None)
        P("all_handles_closed_after_exit", fs.open_handles() == 0)
    return h


def after_mutation_case(seq, op):
    """The object first performs a real mutation in a proper write context; then the mode
    events `seq`; then a reader.  The reader must leave the file as the mutation left it
    (header and table bytes, length), whatever mode the object is in."""
    def h(I):
        def P(label, cond, note=""):
            return I.prove(f"C08.{label}", cond, note)
        fs = I.fs()
        tb = I.mod("tdfBlock")
        Tdf = I.mod("basictdf").Tdf
        N, live = 3, (16,)
        model, spec = C.make_prestate(I, fs, "f.tdf", N, live)
        C.install_recorders(I)
        tdf = Tdf(fs.path("f.tdf"))
        with tdf.allow_write() as t:
            blk, _ = C.opaque_block(I, 11, "m", budget=[spec["total"]])
            t.add_block(blk)
        drive(tdf, seq)
        inside, writable = expected_mode(seq)
        pre = fs.obs("f.tdf")
        T = SF.HEADER + SF.ENTRY * N
        try:
            if op == "has_events":
                tdf.has_events
            elif op == "blocks":
                tdf.blocks
            elif op == "len":
                len(tdf)
            elif op == "get_block":
                tdf.get_block(tb.BlockType(16))
            else:
                tdf.nBytes
            exc = None
        except Exception as e:  # noqa: BLE001
            exc = e
        I.observe("exc", type(exc).__name__ if exc else None)
        if inside:
            tdf.__exit__(None, None, None)
        after = fs.obs("f.tdf")
        I.goal("reader")
        P("file_length_unchanged.by_reader", after.length == pre.length, f"{op} after a mutation and {''.join(seq) or 'nothing'}")
        P("header_and_table_bytes_unchanged.by_reader", after.range(0, T) == pre.range(0, T), f"{op} after a mutation and {''.join(seq) or 'nothing'}")
        P("all_handles_closed_after_exit", fs.open_handles() == 0)
    return h


def copied_object_case(when, op):
    """copy() called while the source holds (or is using) a write permission; the returned
    object never had allow_write() called on it: a mutator in a plain context of the copy
    (or with no context) must raise and leave the copy's file untouched."""
    def h(I):
        def P(label, cond, note=""):
            return I.prove(f"C08.{label}", cond, note)
        fs = I.fs()
        tb = I.mod("tdfBlock")
        Tdf = I.mod("basictdf").Tdf
        N, live = 3, (16,)
        model, spec = C.make_prestate(I, fs, "f.tdf", N, live)
        C.install_recorders(I)
        src = Tdf(fs.path("f.tdf"))
        if when == "inside_write_context":
            with src.allow_write() as s_:
                dup = s_.copy(fs.path("d.tdf"))
        elif when == "permission_pending":
            src.allow_write()
            dup = src.copy(fs.path("d.tdf"))
        else:
            dup = src.copy(fs.path("d.tdf"))
        pre = fs.obs("d.tdf")
        blk, _ = C.opaque_block(I, 11, "m", budget=[spec["total"]])
        try:
            if op == "plain_context_remove":
                with dup as d_:
                    d_.remove_block(tb.BlockType(16))
            elif op == "plain_context_add":
                with dup as d_:
                    d_.add_block(blk)
            else:
                dup.add_block(blk)
            exc = None
        except Exception as e:  # noqa: BLE001
            exc = e
        I.observe("exc", type(exc).__name__ if exc else None)
        I.goal("forbidden")
        P("mutation_outside_write_context_raises", exc is not None, f"{op} on a copy taken {when}")
        unchanged(I, P, fs, pre, model, None, None, N, "u", ".by_forbidden_mutation", name="d.tdf")
        P("all_handles_closed_after_exit", fs.open_handles() == 0)
    return h


def equal_block_case(seq, via):
    """The file holds a REAL events block; the forbidden request assigns a block of equal
    content (no decoder recorders: block equality is the library's own)."""
    def h(I):
        def P(label, cond, note=""):
            return I.prove(f"C08.{label}", cond, note)
        from . import e2e
        fs = I.fs()
        Tdf = I.mod("basictdf").Tdf
        spec = {"n": 3, "version": 1, "hdates": [0, 0, 0], "slots": [{"type": 0, "format": 0, "size": 0, "dates": [0, 0, 0], "comment": "x"} for _ in range(3)]}
        fs.create("f.tdf", spec)
        with Tdf(fs.path("f.tdf")).allow_write() as t:
            t.add_block(e2e.real_block(I, "events", "a"), "c")
        pre = fs.obs("f.tdf")
        tdf = Tdf(fs.path("f.tdf"))
        drive(tdf, seq)
        inside, writable = expected_mode(seq)
        same = e2e.real_block(I, "events", "a")  # identical content, another object
        try:
            if via == "replace":
                tdf.replace_block(same, "c")
            elif via == "replace_nocomment":
                tdf.replace_block(same)
            else:
                tdf.events = same
            exc = None
        except Exception as e:  # noqa: BLE001
            exc = e
        I.observe("exc", type(exc).__name__ if exc else None)
        after = fs.obs("f.tdf")
        if writable:
            I.goal("allowed")
            P("mutation_inside_write_context_accepted", exc is None, f"{via}: {type(exc).__name__ if exc else ''}")
        else:
            I.goal("forbidden")
            P("mutation_outside_write_context_raises", exc is not None, f"{via} with a block equal to the stored one, after {''.join(seq) or 'nothing'}")
            P("file_length_unchanged.by_forbidden_mutation", after.length == pre.length)
            P("bytes_unchanged.by_forbidden_mutation", after.range(0, 64 + 288 * 3) == pre.range(0, 64 + 288 * 3))
        if inside:
            tdf.__exit__(None, None, None)
        P("all_handles_closed_after_exit", fs.open_handles() == 0)
    return h


def instances(tier):
    q = tier == "quick"
    out = []
    for seq in [(), ("E",), ("A",), ("A", "E"), ("A", "E", "X"), ("A", "E", "X", "E"), ("E", "X", "A"), ("A", "E", "R", "E")]:
        for via in ("replace", "replace_nocomment", "setter"):
            inside, writable = expected_mode(seq)
            out.append(Instance(f"equal_block.{''.join(seq) or 'fresh'}.{via}", equal_block_case(seq, via), goals=["allowed" if writable else "forbidden"], cost=20))
    for when in ("inside_write_context", "permission_pending", "no_permission"):
        for op in ("plain_context_remove", "plain_context_add", "no_context_add"):
            out.append(Instance(f"copied_object.{when}.{op}", copied_object_case(when, op), goals=["forbidden"], cost=10))
    for seq in [(), ("A",), ("E",), ("A", "E"), ("A", "E", "X"), ("A", "G"), ("E", "X", "A")]:
        for op in (["has_events", "blocks"] if q else ["has_events", "blocks", "len", "get_block", "nBytes"]):
            out.append(Instance(f"after_mutation.{''.join(seq) or 'fresh'}.{op}", after_mutation_case(seq, op), goals=["reader"], cost=10))
    seqs = sequences(4 if q else 5)
    shapes = [(2, (16,))] + ([] if q else [(3, (16, 5))])
    for N, live in shapes:
        for seq in seqs:
            for op in MUTATORS + READERS:
                if q and len(seq) >= 4 and op in READERS and op not in ("blocks", "len", "copy", "eq", "eq_broken", "events", "nBytes"):
                    continue
                if not q and len(seq) >= 5 and op in READERS and op not in ("blocks", "len", "copy", "eq", "eq_broken", "events"):
                    continue
                inside, writable = expected_mode(seq)
                goal = ("either" if writable is None else ("allowed" if writable else "forbidden")) if op in MUTATORS else "reader"
                out.append(Instance(f"N{N}.{''.join(seq) or 'fresh'}.{op}", case(seq, op, N, live), goals=[goal]))
    # readers (and merely entering / leaving a write context) on a file whose unused slots
    # carry arbitrary offsets
    for seq in [(), ("A",), ("E",), ("A", "E"), ("A", "E", "X"), ("A", "E", "X", "E")]:
        for op in ["blocks", "len", "has_events", "repr"] + ([] if q else ["get_block:type", "nBytes", "copy"]):
            out.append(Instance(f"N3.free_offsets.{''.join(seq) or 'fresh'}.{op}", case(seq, op, 3, (16,), free_offsets="arbitrary"), goals=["reader"]))
    # histories in which a reader is called through the object between the mode events
    for seq in sequences(4 if q else 5, with_reader=True) + ([("A", "G", "E", "X", "E"), ("A", "E", "X", "G", "E"), ("G", "A", "E", "X", "E")] if q else []):
        for op in ["add_block", "remove_block", "set:events"] + ([] if q else ["replace_block"]):
            inside, writable = expected_mode(seq)
            goal = "either" if writable is None else ("allowed" if writable else "forbidden")
            out.append(Instance(f"N2.{''.join(seq)}.{op}", case(seq, op, 2, (16,)), goals=[goal]))
    return out
