"""C14 - equality tells equal content from different content.

Real functions: every block / item __eq__.  Symbolic: all contents of `a`; the changed
value of the single mutation site of `b`.  Enumerated: block type, shape, mutation site.
"""
from symtdf.runner import Instance
from . import blocks as B

PROPERTY = "C14"
META = {
    "explanation": "symbolic execution of the real __eq__ methods on pairs (a,a), (a,decode(encode(a))) and (a, a with one site changed / one item appended or removed); contents are solver variables; numpy's tolerance arithmetic is abstracted (identical non-NaN values are close, a pair with opposite signs and magnitudes >= 1 is not close, anything else is an uninterpreted predicate)",
    "bounds": {"quick": {"items": "1-2 per block", "frames": "2 (all gap masks)", "sites": "one per field class of every block type"},
               "thorough": {"items": "1-3", "frames": "2-3", "sites": "every field of every nested item for the listed shapes"}},
    "outside_bounds": ["'beyond tolerance' is exercised on the sub-class 'opposite signs, both magnitudes >= 1' (a sound sufficient condition for not np.isclose)", "header floats are non-NaN (NaN only as a wholly-missing frame)", "file-level equality is part of the container harness"],
    "assumptions": ["abstract model of np.isclose / np.allclose (DESIGN 1.3)"],
}

SHAPES = {
    "data3d": {"n": 2, "tracks": 2, "fmt": 1, "links": 1, "lab": [1]},
    "emg": {"n": 2, "signals": 2, "lab": [1]},
    "force3d": {"n": 2, "tracks": 2, "lab": [1]},
    "fpdata": {"n": 2, "plats": 2},
    "fpcal": {"plats": 2, "lab": [1]},
    "data2d": {"cells": [[1, None], [1, 1]]},
    "calib": {"fmt": 1, "cams": 2, "model": 0},
    "calib_bts": {"fmt": 2, "cams": 1, "model": 1, "ncoef": 70},
    "optical": {"channels": 2, "lab": [1]},
    "events": {"events": [(0, 1), (1, 2)], "lab": [1], "no_nan": True},
}
COUNT_KEY = {"data3d": "tracks", "emg": "signals", "force3d": "tracks", "fpdata": "plats", "fpcal": "plats", "calib": "cams", "calib_bts": "cams", "optical": "channels"}

# mutation sites: (site name, type, input name, extra)
SITES = {
    "data3d": [("frequency", "ibv", "a.freq", "i32"), ("startTime", "f32", "a.st", None), ("volume", "farr", "a.vol", ((3,), 32, 1)),
               ("rotation", "farr", "a.rot", ((3, 3), 32, 4)), ("translation", "farr", "a.tr", ((3,), 32, 2)),
               ("label", "label", "a.label1", 1), ("label_length", "label", "a.label0", 2), ("link", "ibv", "a.link0b", "u32"),
               ("sample", "farr", "a.t1", ((2, 3), 32, 4)), ("flag", "sh", "flag", 1), ("format", "sh", "fmt", 2),
               ("gap", "gap", None, ([("a.t0", (2, 3), 32)], 1))],
    "emg": [("frequency", "ibv", "a.freq", "i32"), ("startTime", "f32", "a.st", None), ("channel", "ibv", "a.ch1", "i16"),
            ("label", "label", "a.label1", 1), ("sample", "farr", "a.s1", ((2,), 32, 1)), ("gap", "gap", None, ([("a.s0", (2,), 32)], 0))],
    "force3d": [("frequency", "ibv", "a.freq", "i32"), ("startTime", "f32", "a.st", None), ("volume", "farr", "a.vol", ((3,), 32, 0)),
                ("rotation", "farr", "a.rot", ((3, 3), 32, 8)), ("translation", "farr", "a.tr", ((3,), 32, 1)), ("label", "label", "a.label1", 1),
                ("sample_point", "farr", "a.t1.ap", ((2, 3), 32, 3)), ("sample_force", "farr", "a.t0.f", ((2, 3), 32, 5)), ("sample_torque", "farr", "a.t1.t", ((2, 3), 32, 0)),
                ("gap", "gap", None, ([("a.t1.ap", (2, 3), 32), ("a.t1.f", (2, 3), 32), ("a.t1.t", (2, 3), 32)], 0))],
    "fpdata": [("frequency", "ibv", "a.freq", "i32"), ("startTime", "f32", "a.st", None), ("channel", "ibv", "a.ch1", "u16"),
               ("sample_point", "farr", "a.p1.ap", ((2, 2), 32, 2)), ("sample_force", "farr", "a.p0.f", ((2, 3), 32, 4)), ("sample_torque", "farr", "a.p1.t", ((2,), 32, 1)),
               ("gap", "gap", None, ([("a.p0.ap", (2, 2), 32), ("a.p0.f", (2, 3), 32), ("a.p0.t", (2,), 32)], 1))],
    "fpcal": [("channel", "ibv", "a.ch1", "i16"), ("label", "label", "a.label1", 1), ("size", "farr", "a.p1.size", ((2,), 32, 1)), ("position", "farr", "a.p0.pos", ((4, 3), 32, 7))],
    "data2d": [("frequency", "ibv", "a.freq", "i32"), ("startTime", "f32", "a.st", None), ("camera_map", "ibv", "a.cam1", "u16"),
               ("sample", "farr", "a.cell1_1", ((1, 2), 32, 1)), ("flag", "sh", "flag", 1), ("cell_presence", "sh", "cells", [[1, 1], [1, 1]]), ("cell_points", "sh", "cells", [[2, None], [1, 1]])],
    "calib": [("volume", "farr", "a.vol", ((3,), 32, 2)), ("rotation", "farr", "a.rot", ((3, 3), 32, 0)), ("translation", "farr", "a.tr", ((3,), 32, 0)),
              ("map", "iarr", "a.map", (2, "i16", 1)), ("cam_rotation", "farr", "a.c1.rot", ((3, 3), 64, 4)), ("cam_translation", "farr", "a.c0.tr", ((3,), 64, 1)),
              ("cam_focus", "farr", "a.c1.foc", ((2,), 64, 0)), ("cam_center", "farr", "a.c1.oc", ((2,), 64, 1)), ("cam_radial", "farr", "a.c1.rad", ((2,), 64, 1)),
              ("cam_decentering", "farr", "a.c0.dec", ((2,), 64, 0)), ("cam_thin_prism", "farr", "a.c1.thin", ((2,), 64, 1)),
              ("cam_viewport", "iarr", "a.c1.vs", (2, "i32", 0)), ("model", "sh", "model", 2)],
    "calib_bts": [("cam_rotation", "farr", "a.c0.rot", ((3, 3), 64, 4)), ("cam_focus", "farr", "a.c0.foc", ((2,), 64, 0)), ("cam_xcoef", "farr", "a.c0.xd", ((70,), 64, 69)),
                  ("cam_ycoef", "farr", "a.c0.yd", ((70,), 64, 0)), ("cam_viewport", "iarr", "a.c0.vo", (2, "i32", 1)), ("map", "iarr", "a.map", (1, "i16", 0)),
                  ("cam_translation", "farr", "a.c0.tr", ((3,), 64, 2)), ("cam_center", "farr", "a.c0.oc", ((2,), 64, 0)), ("cam_viewport_size", "iarr", "a.c0.vs", (2, "i32", 0))],
    "optical": [("index", "ibv", "a.ch1.idx", "i32"), ("lens", "label", "a.ch1.lens", 1), ("type", "label", "a.ch0.type", 0, 1), ("name", "label", "a.ch1.name", 2),
                ("viewport", "iarr", "a.ch1.vo", (2, "i32", 1))],
    "events": [("start_time", "f32", "a.st", None), ("label", "label", "a.label1", 1), ("value", "farr", "a.e1", ((2,), 32, 1)),
               ("type", "sh", "events", [(1, 1), (1, 2)]), ("nvalues", "sh", "events", [(0, 1), (1, 1)])],
}


def _kind(k):
    return "calib" if k == "calib_bts" else k


def _eq(I, x, y):
    try:
        return x == y, None
    except Exception as e:  # noqa: BLE001
        return None, e


def _header_non_nan(I, kind, blk):
    """Valid blocks carry NaN only as wholly-missing frames: header floats are non-NaN."""
    names = {"data3d": ["startTime", "volume", "rotationMatrix", "translationVector"], "emg": ["startTime"],
             "force3d": ["startTime", "volume", "rotationMatrix", "translationVector"], "fpdata": ["start_time"], "data2d": ["startTime"],
             "events": ["start_time"], "calib": ["calibration_volume_size", "calibration_volume_rotation_matrix", "calibration_volume_translation_vector"]}
    for n in names.get(kind, []):
        B.assume_no_nan(I, getattr(blk, n))
    if kind == "fpcal":
        for _, p in blk.platforms:
            B.assume_no_nan(I, p.size)
            B.assume_no_nan(I, p.position)
    if kind == "calib":
        for c in blk.cam_data:
            for n in ("rotation_matrix", "translation_vector", "focus", "optical_center", "radial_distortion", "decentering", "thin_prism",
                      "x_distortion_coefficients", "y_distortion_coefficients"):
                if hasattr(c, n):
                    B.assume_no_nan(I, getattr(c, n))
    if kind == "data2d":
        d = blk.data
        for f in range(d.shape[0]):
            for c in range(d.shape[1]):
                if d[f, c] is not None:
                    B.assume_no_nan(I, d[f, c])


def equal_case(k):
    def h(I):
        kind, sh = _kind(k), SHAPES[k]
        a = B.build(I, kind, sh, "a")
        _header_non_nan(I, kind, a)
        r, e = _eq(I, a, a)
        I.observe("self", [r if e is None else type(e).__name__])
        I.prove(f"C14.{k}.equal_to_itself", e is None and r, f"{type(e).__name__ if e else ''}")
        a2 = B.build(I, kind, sh, "a")  # separately constructed, identical content
        r, e = _eq(I, a, a2)
        I.prove(f"C14.{k}.equal_to_identical_copy", e is None and r, f"{type(e).__name__ if e else ''}")
        data = B.encode(I, a)
        d, _ = B.decode(I, kind, data, a.format.value)
        r, e = _eq(I, a, d)
        I.observe("decoded", [r if e is None else type(e).__name__])
        I.prove(f"C14.{k}.equal_to_decoded_encoding", e is None and r, f"{type(e).__name__ if e else ''}")
        r, e = _eq(I, d, a)
        I.prove(f"C14.{k}.decoded_encoding_equal_to_it", e is None and r, f"{type(e).__name__ if e else ''}")
        # items: a track with gaps equals itself
        items = []
        if kind in ("data3d", "force3d", "emg", "events", "optical"):
            items = list(a)
        elif kind == "fpdata":
            items = list(a.platforms)
        elif kind == "fpcal":
            items = [p for _, p in a.platforms]
        elif kind == "calib":
            items = list(a.cam_data)
        for it in items:
            r, e = _eq(I, it, it)
            I.prove(f"C14.{k}.item_equal_to_itself", e is None and r, f"{type(it).__name__} {type(e).__name__ if e else ''}")
        I.goal("done")
    return h


def _first_item(kind, blk):
    if kind in ("data3d", "force3d", "emg", "events", "optical"):
        return list(blk)[0]
    if kind == "fpdata":
        return list(blk.platforms)[0]
    if kind == "fpcal":
        return blk.platforms[0][1]
    if kind == "calib":
        return list(blk.cam_data)[0]
    raise ValueError(kind)


def history_case(k, what):
    """compare -> edit one of the two blocks in place -> compare again: equality must follow
    the current content (nothing memoised from the first comparison)."""
    def h(I):
        kind, sh = _kind(k), SHAPES[k]
        a = B.build(I, kind, sh, "a")
        b = B.build(I, kind, sh, "a")  # identical content, separate objects
        _header_non_nan(I, kind, a)
        r, e = _eq(I, a, b)
        I.prove(f"C14.{k}.equal_to_identical_copy", e is None and r, f"{type(e).__name__ if e else ''}")
        r, e = _eq(I, b, a)
        I.prove(f"C14.{k}.equal_to_identical_copy", e is None and r, "other direction")
        it = _first_item(kind, b)
        if what == "label":
            attr = "camera_name" if kind == "optical" else "label"
            old = getattr(it, attr)
            new = I.label("m", 1)
            I.assume(I.not_(new == old))
            setattr(it, attr, new)
        else:
            arr, pos, w = {"data3d": (lambda: (it.data, (0, 0), 32)), "emg": (lambda: (it.data, (0,), 32)), "force3d": (lambda: (it.force, (0, 0), 32)),
                           "fpdata": (lambda: (it.force, (0, 0), 32)), "events": (lambda: (it.values, (0,), 32)), "fpcal": (lambda: (it.size, (0,), 32)),
                           "calib": (lambda: (it.focus, (0,), 64))}[kind]()
            x = arr[pos]
            for nn in B.isnan_list(I, I.np.asarray(x).reshape(1)):
                I.assume(I.not_(nn))
            if kind in ("data3d", "emg"):
                # the edited frame is a present one
                row = arr[0]
                for nn in B.isnan_list(I, row if getattr(row, "shape", ()) else I.np.asarray(row).reshape(1)):
                    I.assume(I.not_(nn))
            mv = I.farray("m", (1,), w)  # a finite new value (an infinite sample is stored as a gap)
            B.assume_no_nan(I, mv)
            I.assume(I.not_(B.isinf_list(I, mv)[0]))
            m = mv[0]
            I.assume(I.far(x, m))
            arr[pos] = m
        I.goal("edited")
        r, e = _eq(I, a, b)
        I.observe("after", [r if e is None else type(e).__name__])
        I.prove(f"C14.{k}.differs_after_in_place_edit.{what}", e is None and I.truth(r) is False, f"{type(e).__name__ if e else ''}")
        r, e = _eq(I, b, a)
        I.prove(f"C14.{k}.differs_after_in_place_edit.{what}.symmetric", e is None and I.truth(r) is False, f"{type(e).__name__ if e else ''}")
        data = B.encode(I, b)
        d, _ = B.decode(I, kind, data, b.format.value)
        r, e = _eq(I, b, d)
        I.prove(f"C14.{k}.edited_block_equal_to_its_decoded_encoding", e is None and r, f"{type(e).__name__ if e else ''}")
    return h


def _mutate(I, site):
    """-> (ov dict, shape patch dict)"""
    typ, name = site[1], site[2]
    if typ == "sh":
        return {}, {site[2]: site[3]}
    if typ == "ibv":
        orig = I.ibv(name, site[3])
        m = I.ibv("m", site[3])
        I.assume(I.not_(m == orig))
        return {name: m}, {}
    if typ == "f32":
        orig = I.f32(name)
        m = I.f32("m")
        I.assume(I.far(orig, m))
        return {name: m}, {}
    if typ == "farr":
        shape, w, idx = site[3]
        orig = I.farray(name, shape, w)
        m = I.f32("m") if w == 32 else I.f64("m")
        flat_index = idx
        pos = []
        for d in reversed(shape):
            pos.append(flat_index % d)
            flat_index //= d
        pos = tuple(reversed(pos))
        I.assume(I.far(orig[pos], m))
        new = orig.copy()
        new[pos] = m
        return {name: new}, {}
    if typ == "gap":
        # the frame is present in a and wholly missing in b (every component NaN)
        arrays, frame = site[3]
        ov = {}
        for (name, shape, w) in arrays:
            orig = I.farray(name, shape, w)
            row = orig[frame]
            for x in B.isnan_list(I, row if hasattr(row, "shape") and row.shape else I.np.asarray(row).reshape(1)):
                I.assume(I.not_(x))
            new = orig.copy()
            new[frame] = float("nan")
            ov[name] = new
        return ov, {}
    if typ == "iarr":
        n, code, idx = site[3]
        orig = I.iarray(name, n, code)
        m = I.ibv("m", code)
        I.assume(I.not_(m == orig[idx]))
        new = orig.copy()
        new[idx] = m
        return {name: new}, {}
    if typ == "label":
        L = site[3]
        L2 = site[4] if len(site) > 4 else L
        orig = I.label(name, L)
        m = I.label("m", L2)
        if L2 == L:
            I.assume(I.not_(m == orig))
        return {name: m}, {}
    raise ValueError(typ)


def differ_case(k, site):
    def h(I):
        kind, sh = _kind(k), SHAPES[k]
        ov_a = None
        if site[1] == "ipair":
            # two concrete, large, neighbouring integers (a relative tolerance would call them equal)
            ov_a = {site[2]: site[3][0]}
        a = B.build(I, kind, sh, "a", ov=ov_a)
        _header_non_nan(I, kind, a)
        ov, patch = ({site[2]: site[3][1]}, {}) if site[1] == "ipair" else _mutate(I, site)
        sh2 = dict(sh)
        sh2.update(patch)
        b = B.build(I, kind, sh2, "a", ov=ov)
        _header_non_nan(I, kind, b)
        r, e = _eq(I, a, b)
        I.observe("ab", [r if e is None else type(e).__name__])
        I.prove(f"C14.{k}.differs_in_{site[0]}", e is None and I.not_(r), f"{type(e).__name__ if e else ''}")
        r, e = _eq(I, b, a)
        I.prove(f"C14.{k}.differs_in_{site[0]}.symmetric", e is None and I.not_(r), f"{type(e).__name__ if e else ''}")
        I.goal("done")
    return h


def count_case(k, delta):
    def h(I):
        kind, sh = _kind(k), SHAPES[k]
        a = B.build(I, kind, sh, "a")
        _header_non_nan(I, kind, a)
        sh2 = dict(sh)
        if k == "events":
            sh2["events"] = (sh["events"] + [(1, 1)]) if delta > 0 else sh["events"][:-1]
        else:
            sh2[COUNT_KEY[k]] = sh[COUNT_KEY[k]] + delta
        b = B.build(I, kind, sh2, "a")
        _header_non_nan(I, kind, b)
        r, e = _eq(I, a, b)
        I.observe("ab", [r if e is None else type(e).__name__])
        what = "one_item_appended" if delta > 0 else "one_item_removed"
        I.prove(f"C14.{k}.differs_by_{what}", e is None and I.not_(r), f"{type(e).__name__ if e else ''}")
        r, e = _eq(I, b, a)
        I.prove(f"C14.{k}.differs_by_{what}.symmetric", e is None and I.not_(r), f"{type(e).__name__ if e else ''}")
        I.goal("done")
    return h


# integer header scalars: large neighbouring values must be told apart exactly
IPAIRS = {"data3d": "a.freq", "emg": "a.freq", "force3d": "a.freq", "fpdata": "a.freq", "data2d": "a.freq"}


def _expand(k, site):
    """thorough tier: the same site on the other item(s) and at every element index"""
    import re

    out = [site]
    typ = site[1]
    names = [site[2]] if site[2] else []
    nitems = SHAPES[k].get(COUNT_KEY.get(k, ""), len(SHAPES[k].get("events", [])) or 2)
    if names and nitems >= 2 and not (k == "events" and site[0] == "value"):
        alt = re.sub(r"(?<=[a-z.])([01])(?=$|\.)", lambda m: "1" if m.group(1) == "0" else "0", names[0], count=1)
        if alt != names[0]:
            out.append((site[0] + "_other_item",) + (typ, alt) + tuple(site[3:]))
    more = []
    for st in out:
        if st[1] == "farr":
            shape, w, idx = st[3]
            n = 1
            for d in shape:
                n *= d
            idxs = range(n) if n <= 12 else [0, 1, n // 2, n - 2, n - 1]
            for i in idxs:
                if i != idx:
                    more.append((f"{st[0]}_at{i}", st[1], st[2], (shape, w, i)))
        if st[1] == "iarr":
            n, code, idx = st[3]
            for i in range(n):
                if i != idx:
                    more.append((f"{st[0]}_at{i}", st[1], st[2], (n, code, i)))
    return out + more


def instances(tier):
    out = []
    for k in SHAPES:
        gapkind = k in ("data3d", "emg", "force3d", "fpdata")
        out.append(Instance(f"{k}.equal", equal_case(k), goals=["done"], cost=64 if gapkind else 4))
        sites = SITES[k] if tier == "quick" else [x for st in SITES[k] for x in _expand(k, st)]
        for site in sites:
            out.append(Instance(f"{k}.differ.{site[0]}", differ_case(k, site), goals=["done"], cost=32 if gapkind else 2))
        if k in IPAIRS:
            for v0, v1 in ((100000, 100001), (2000000000, 2000000001)):
                out.append(Instance(f"{k}.differ.frequency_{v0}_vs_{v1}", differ_case(k, (f"frequency", "ipair", IPAIRS[k], (v0, v1))), goals=["done"], cost=32 if gapkind else 2))
        if k in COUNT_KEY or k == "events":
            out.append(Instance(f"{k}.count.plus", count_case(k, +1), goals=["done"], cost=64 if gapkind else 2))
            out.append(Instance(f"{k}.count.minus", count_case(k, -1), goals=["done"], cost=16 if gapkind else 2))
    for k in SHAPES:
        kind = _kind(k)
        if kind == "data2d" or k == "calib_bts":
            continue
        gapkind = k in ("data3d", "emg", "force3d", "fpdata")
        for what in (["label"] if kind in ("data3d", "emg", "force3d", "fpcal", "optical", "events") else []) + (["sample"] if kind != "optical" else []):
            out.append(Instance(f"{k}.history.{what}", history_case(k, what), goals=["edited"], cost=64 if gapkind else 4))
    from . import e2e
    for v in ("same", "slot_count", "version", "fewer_blocks", "value", "label", "order"):
        out.append(Instance(f"file.{v}", e2e.c14_file_case(v), goals=["done"], cost=40))
    return out
