"""C19 - constructors refuse arguments whose shape would mis-size the encoding.

Symbolic: array extents (ShapeOnlyArray: .shape is a tuple of solver integers), viewport /
event contents.  Enumerated: constructor, argument, rank 0..3, non-array kinds.
"""
from symtdf.runner import Instance
from . import blocks as B

PROPERTY = "C19"
META = {
    "explanation": "symbolic execution of the real constructors with array extents as solver integers: 'constructed => shape is exactly the required one' and 'refused => shape differs' are decided for every extent, not a sampled grid",
    "bounds": {"quick": {"rank": "0-3", "extents": "every int in [0, 2^20] (symbolic)", "non_array_kinds": "list, tuple, None, str, float, int"},
               "thorough": {"rank": "0-5", "extents": "every int in [0, 2^20] (symbolic)", "non_array_kinds": "list, tuple, None, str, float, int, bytes, dict", "dtypes": "f4,f8,i4,i2,u1 on the concrete accepted-shape leg"}},
    "outside_bounds": ["extents above 2^20", "ranks above 4", "BTS-format camera records (not listed by the property; coefficient count is a C02 precondition)"],
    "assumptions": ["constructors inspect only isinstance and .shape (an access to array data concretises the extents through the solver)"],
}

REQ3, REQ33, REQ2 = (3,), (3, 3), (2,)


def _valid(I, shape, w=32):
    return I.farray("ok." + "x".join(map(str, shape)) + f".{w}", shape, w)


def _nonarray(kind, shape):
    n = 1
    for s in shape:
        n *= s
    flat = [0.0] * n
    if kind == "list":
        if len(shape) == 2:
            return [flat[i * shape[1]:(i + 1) * shape[1]] for i in range(shape[0])]
        return flat
    if kind == "tuple":
        return tuple(_nonarray("list", shape)) if len(shape) == 1 else tuple(tuple(r) for r in _nonarray("list", shape))
    return {"None": None, "str": "abc", "float": 1.5, "int": 3, "bytes": b"abc", "dict": {}}[kind]


def _ctor(I, name):
    """-> (callable taking overrides, dict argname -> required shape)"""
    np = I.np
    if name in ("Data3D", "ForceTorque3D"):
        cls = getattr(I.mod("tdfData3D" if name == "Data3D" else "tdfForce3D"), name)
        req = {"volume": REQ3, "rotationMatrix": REQ33, "translationVector": REQ3}

        def mk(**ov):
            args = {k: _valid(I, v) for k, v in req.items() if k not in ov}
            args.update(ov)
            return cls(frequency=100, nFrames=2, **args)
        return mk, req
    if name == "CalibrationDataBlock":
        m = I.mod("tdfCalibrationData")
        req = {"calibration_volume_size": REQ3, "calibration_volume_rotation_matrix": REQ33, "calibration_volume_translation_vector": REQ3}

        def mk(**ov):
            args = {k: _valid(I, v) for k, v in req.items() if k not in ov}
            args.update(ov)
            args.setdefault("cameras_calibration_map", I.iarray("map", 0, "i16"))
            return m.CalibrationDataBlock(distorsion_model=m.DistorsionModel(0), cam_data=[], **args)
        return mk, req
    if name == "SeelabCameraData":
        m = I.mod("tdfCalibrationData")
        req = {"rotation_matrix": REQ33, "translation_vector": REQ3, "focus": REQ2, "optical_center": REQ2,
               "radial_distortion": REQ2, "decentering": REQ2, "thin_prism": REQ2}

        def mk(**ov):
            args = {k: _valid(I, v, 64) for k, v in req.items() if k not in ov}
            args.update(ov)
            args.setdefault("view_port", B._viewport(I, "vp"))
            return m.SeelabCameraData(**args)
        return mk, req
    raise ValueError(name)


def shape_case(ctor, arg, rank):
    def h(I):
        mk, req = _ctor(I, ctor)
        want = req[arg]
        a = I.shaped("a", rank, "<f8" if ctor == "SeelabCameraData" else "<f4")
        shape = tuple(a.shape)
        try:
            obj = mk(**{arg: a})
            exc = None
        except Exception as e:  # noqa: BLE001
            obj, exc = None, e
        I.observe("exc", type(exc).__name__ if exc else None)
        same = I.and_(*[s == w for s, w in zip(shape, want)]) if rank == len(want) else False
        if exc is None:
            I.goal("accepted")
            I.prove(f"C19.{ctor}.{arg}.accepted_only_with_exact_shape", same, f"rank={rank}")
        else:
            I.goal("refused")
            I.prove(f"C19.{ctor}.{arg}.exact_shape_is_accepted", I.not_(same), f"rank={rank} {type(exc).__name__}")
    return h


def kind_case(ctor, arg, kind):
    def h(I):
        mk, req = _ctor(I, ctor)
        v = _nonarray(kind, req[arg])
        try:
            mk(**{arg: v})
            exc = None
        except Exception as e:  # noqa: BLE001
            exc = e
        I.observe("exc", type(exc).__name__ if exc else None)
        I.goal("refused" if exc else "accepted")
        I.prove(f"C19.{ctor}.{arg}.non_array_refused", exc is not None, kind)
    return h


def map_case(rank):
    """cameras_calibration_map must be a rank-1 array."""
    def h(I):
        mk, _ = _ctor(I, "CalibrationDataBlock")
        a = I.shaped("a", rank, "<i2")
        try:
            mk(cameras_calibration_map=a)
            exc = None
        except Exception as e:  # noqa: BLE001
            exc = e
        I.observe("exc", type(exc).__name__ if exc else None)
        I.goal("accepted" if exc is None else "refused")
        I.prove("C19.CalibrationDataBlock.map.accepted_iff_rank1", (exc is None) == (rank == 1), f"rank={rank}")
    return h


def coupled_case(r1, r2, r3):
    def h(I):
        m = I.mod("tdfForce3D")
        a, b, c = I.shaped("ap", r1), I.shaped("f", r2), I.shaped("t", r3)
        try:
            m.ForceTorqueTrack("x", a, b, c)
            exc = None
        except Exception as e:  # noqa: BLE001
            exc = e
        I.observe("exc", type(exc).__name__ if exc else None)
        if r1 == r2 == r3:
            same = I.and_(*[x == y for x, y in zip(a.shape, b.shape)], *[x == y for x, y in zip(a.shape, c.shape)]) if r1 else True
        else:
            same = False
        if exc is None:
            I.goal("accepted")
            I.prove("C19.ForceTorqueTrack.accepted_only_with_equal_shapes", same)
        else:
            I.goal("refused")
            I.prove("C19.ForceTorqueTrack.equal_shapes_accepted", I.not_(same))
    return h


def coupled_kind_case(kind):
    def h(I):
        m = I.mod("tdfForce3D")
        ok = _valid(I, (2, 3))
        v = _nonarray(kind, (2, 3))
        excs = []
        for pos in range(3):
            args = [ok, ok, ok]
            args[pos] = v
            try:
                m.ForceTorqueTrack("x", *args)
                excs.append(None)
            except Exception as e:  # noqa: BLE001
                excs.append(e)
        I.observe("excs", [type(e).__name__ if e else None for e in excs])
        I.goal("refused")
        I.prove("C19.ForceTorqueTrack.non_array_refused", all(e is not None for e in excs), kind)
    return h


def viewport_case(form, n_origin, n_size):
    """CameraViewPort(origin, size) given as list / tuple / array of n elements."""
    def h(I):
        T = I.mod("tdfTypes")
        np = I.np

        def mkv(tag, n):
            vals = [I.ibv(f"{tag}{k}", "i32") for k in range(n)]
            if form == "list":
                return vals
            if form == "tuple":
                return tuple(vals)
            return I.iarray(tag, n, "i32")

        o, s = mkv("o", n_origin), mkv("s", n_size)
        try:
            vp = T.CameraViewPort(o, s)
            exc = None
        except Exception as e:  # noqa: BLE001
            vp, exc = None, e
        I.observe("exc", type(exc).__name__ if exc else None)
        good = n_origin == 2 and n_size == 2
        if good:
            I.goal("accepted")
            I.prove(f"C19.CameraViewPort.two_element_{form}_accepted", exc is None, f"{type(exc).__name__ if exc else ''}")
            if exc is None:
                f = I.BytesIO()
                vp.bwrite(f)
                data = f.getvalue()
                I.observe("bytes", data)
                I.prove("C19.CameraViewPort.accepted_object_encodes_to_nBytes", len(data) == vp.nBytes and len(vp.write()) == vp.nBytes)
                exp = np.array(list(o), dtype="<i4").tobytes() + np.array(list(s), dtype="<i4").tobytes()
                I.prove("C19.CameraViewPort.encoding_is_origin_then_size", data == exp)
        else:
            I.goal("refused")
            I.prove(f"C19.CameraViewPort.wrong_length_{form}_refused", exc is not None, f"origin={n_origin} size={n_size}")
    return h


def viewport_rank_case(rank):
    def h(I):
        T = I.mod("tdfTypes")
        a = I.shaped("o", rank, "<i4")
        ok = I.iarray("s", 2, "i32")
        res = []
        for pos in range(2):
            try:
                T.CameraViewPort(*( (a, ok) if pos == 0 else (ok, a) ))
                res.append(None)
            except Exception as e:  # noqa: BLE001
                res.append(e)
        I.observe("exc", [type(e).__name__ if e else None for e in res])
        same = (a.shape[0] == 2) if rank == 1 else False
        for pos, e in enumerate(res):
            which = "origin" if pos == 0 else "size"
            if e is None:
                I.goal("accepted")
                I.prove(f"C19.CameraViewPort.{which}.array_accepted_only_with_shape_2", same)
            else:
                I.goal("refused")
                I.prove(f"C19.CameraViewPort.{which}.array_shape_2_accepted", I.not_(same))
    return h


def coercion_case(ctor, rank):
    """Optical channel / camera records take a CameraViewPort or a (2,2) array."""
    def h(I):
        a = I.shaped("vp", rank, "<i4")

        def mk(v):
            if ctor == "OpticalChannelData":
                return I.mod("tdfOpticalSystem").OpticalChannelData(1, "l", "t", "n", v)
            mk2, _ = _ctor(I, "SeelabCameraData")
            return mk2(view_port=v)
        try:
            obj = mk(a)
            exc = None
        except Exception as e:  # noqa: BLE001
            obj, exc = None, e
        I.observe("exc", type(exc).__name__ if exc else None)
        same = I.and_(a.shape[0] == 2, a.shape[1] == 2) if rank == 2 else False
        if exc is None:
            I.goal("accepted")
            I.prove(f"C19.{ctor}.viewport_array_accepted_only_if_2x2", same)
            vp = obj.camera_viewport if ctor == "OpticalChannelData" else obj.view_port
            I.prove(f"C19.{ctor}.viewport_coerced", type(vp).__name__ == "CameraViewPort")
        else:
            I.goal("refused")
            I.prove(f"C19.{ctor}.viewport_2x2_array_accepted", I.not_(same), type(exc).__name__)
    return h


def coercion_kind_case(ctor, kind):
    def h(I):
        v = _nonarray(kind, (2, 2))

        def mk(v):
            if ctor == "OpticalChannelData":
                return I.mod("tdfOpticalSystem").OpticalChannelData(1, "l", "t", "n", v)
            mk2, _ = _ctor(I, "SeelabCameraData")
            return mk2(view_port=v)
        try:
            mk(v)
            exc = None
        except Exception as e:  # noqa: BLE001
            exc = e
        I.observe("exc", type(exc).__name__ if exc else None)
        I.goal("refused")
        I.prove(f"C19.{ctor}.viewport_other_kinds_refused", exc is not None, kind)
    return h


def coercion_value_case(ctor):
    """A (2,2) int array is coerced to origin=row0, size=row1 and encodes to nBytes."""
    def h(I):
        np = I.np
        rows = [[I.ibv("o0", "i32"), I.ibv("o1", "i32")], [I.ibv("s0", "i32"), I.ibv("s1", "i32")]]
        a = np.array(rows, dtype="<i4")
        if ctor == "OpticalChannelData":
            obj = I.mod("tdfOpticalSystem").OpticalChannelData(I.ibv("idx", "i32"), "l", "t", "n", a)
            vp = obj.camera_viewport
        else:
            mk2, _ = _ctor(I, "SeelabCameraData")
            obj = mk2(view_port=a)
            vp = obj.view_port
        f = I.BytesIO()
        obj._write(f)
        data = f.getvalue()
        I.observe("bytes", data)
        I.goal("accepted")
        I.prove(f"C19.{ctor}.accepted_object_encodes_to_nBytes", len(data) == obj.nBytes)
        I.prove(f"C19.{ctor}.coerced_viewport_is_rows", data[-16:] == a.tobytes())
    return h


def event_case(kind, values_kind, n):
    def h(I):
        m = I.mod("tdfEvents")
        np = I.np
        t = m.EventsDataType(kind)
        if values_kind == "list":
            vals = [I.f32(f"v{k}") for k in range(n)]
        elif values_kind == "tuple":
            vals = tuple(I.f32(f"v{k}") for k in range(n))
        elif values_kind == "array":
            vals = I.farray("v", (n,))
        elif values_kind == "array64":
            vals = np.zeros((n,), dtype="<f8")
        elif values_kind.startswith("array0d"):
            # a rank-0 ndarray has an __iter__ attribute but is not iterable (iter() raises)
            vals = np.array(2.5 if values_kind[7:] != "<i4" else 2, dtype=values_kind[7:])
        elif values_kind == "object":
            vals = object()
        else:
            vals = {"int": 3, "float": 1.5, "None": None, "bool": True}[values_kind]
        try:
            e = m.Event("lab", vals, t)
            exc = None
        except Exception as ex:  # noqa: BLE001
            e, exc = None, ex
        I.observe("exc", type(exc).__name__ if exc else None)
        if values_kind in ("int", "float", "None", "bool", "object") or values_kind.startswith("array0d"):
            I.goal("refused")
            I.prove("C19.Event.non_iterable_is_TypeError", isinstance(exc, TypeError), values_kind)
            return
        if kind == 0 and n > 1:
            I.goal("refused")
            I.prove("C19.Event.single_event_with_many_values_refused", exc is not None, f"n={n}")
            return
        I.goal("accepted")
        I.prove("C19.Event.valid_values_accepted", exc is None, f"{type(exc).__name__ if exc else ''}")
        if exc is None:
            f = I.BytesIO()
            e._write(f)
            data = f.getvalue()
            I.observe("bytes", data)
            I.prove("C19.Event.accepted_object_encodes_to_nBytes", len(data) == e.nBytes and len(e) == n)
    return h


def instances(tier):
    q = tier == "quick"
    out = []
    ranks = [0, 1, 2, 3] if q else [0, 1, 2, 3, 4, 5]
    kinds = ["list", "tuple", "None", "str", "float", "int"] + ([] if q else ["bytes", "dict"])
    for ctor in ("Data3D", "ForceTorque3D", "CalibrationDataBlock", "SeelabCameraData"):
        req = {"Data3D": ["volume", "rotationMatrix", "translationVector"], "ForceTorque3D": ["volume", "rotationMatrix", "translationVector"],
               "CalibrationDataBlock": ["calibration_volume_size", "calibration_volume_rotation_matrix", "calibration_volume_translation_vector"],
               "SeelabCameraData": ["rotation_matrix", "translation_vector", "focus", "optical_center", "radial_distortion", "decentering", "thin_prism"]}[ctor]
        for arg in req:
            need = 2 if ("otation" in arg) else 1
            for r in ranks:
                goals = ["refused"] + (["accepted"] if r == need else [])
                out.append(Instance(f"{ctor}.{arg}.rank{r}", shape_case(ctor, arg, r), goals=goals))
            for k in kinds:
                out.append(Instance(f"{ctor}.{arg}.{k}", kind_case(ctor, arg, k), goals=["refused"]))
    for r in ranks:
        out.append(Instance(f"CalibrationDataBlock.map.rank{r}", map_case(r)))
    for k in kinds:
        out.append(Instance(f"CalibrationDataBlock.map.{k}", kind_case("CalibrationDataBlock", "calibration_volume_size", k)))
    rr = [1, 2] if q else [0, 1, 2, 3]
    for r1 in rr:
        for r2 in rr:
            for r3 in rr:
                goals = ["refused"] + (["accepted"] if r1 == r2 == r3 else [])
                if r1 == r2 == r3 == 0:
                    goals = ["accepted"]
                out.append(Instance(f"ForceTorqueTrack.ranks{r1}{r2}{r3}", coupled_case(r1, r2, r3), goals=goals))
    for k in kinds:
        out.append(Instance(f"ForceTorqueTrack.{k}", coupled_kind_case(k), goals=["refused"]))
    for form in ("list", "tuple", "array"):
        for no in (0, 1, 2, 3):
            for ns in (0, 1, 2, 3):
                if no != 2 and ns != 2 and no != ns:
                    continue
                out.append(Instance(f"CameraViewPort.{form}.{no}.{ns}", viewport_case(form, no, ns)))
    for r in ranks:
        out.append(Instance(f"CameraViewPort.rank{r}", viewport_rank_case(r)))
    for ctor in ("OpticalChannelData", "SeelabCameraData"):
        for r in ranks:
            out.append(Instance(f"{ctor}.viewport.rank{r}", coercion_case(ctor, r), goals=["refused"] + (["accepted"] if r == 2 else [])))
        for k in kinds:
            out.append(Instance(f"{ctor}.viewport.{k}", coercion_kind_case(ctor, k), goals=["refused"]))
        out.append(Instance(f"{ctor}.viewport.values", coercion_value_case(ctor), goals=["accepted"]))
    for kind in (0, 1):
        for vk in ("list", "tuple", "array", "array64"):
            for n in ((0, 1, 2, 3) if q else (0, 1, 2, 3, 4, 5, 8)):
                out.append(Instance(f"Event.kind{kind}.{vk}.{n}", event_case(kind, vk, n)))
        for vk in ("int", "float", "None", "bool", "object", "array0d<f4", "array0d<f8", "array0d<i4"):
            out.append(Instance(f"Event.kind{kind}.{vk}", event_case(kind, vk, 0), goals=["refused"]))
    return out
