"""C02 - declared size = bytes written = bytes consumed."""
from . import codec

PROPERTY = "C02"
META = {
    "explanation": "symbolic execution of every real _write/_build pair: all sample bits, label characters, header "
                   "integers/floats are solver variables; gap masks are solver-enumerated paths",
    "bounds": {
        "quick": {"items_per_block": "0-2", "frames": "1-3 (all 2^n masks)", "labels": "lengths 0,2,3,40 and one 255 (events)",
                  "data2d": "up to 2x2 cells, <=2 points", "cameras": "0-2 (Seelab1, BTS with 70 coefficients)", "events": "0-3 events, 0-2 values"},
        "thorough": {"items_per_block": "0-4", "frames": "1-6, 8, 10 (three items: 2-3 frames) (C05: every n from 1 to 10 for one track, 1-5 for two, 2-3 for three)", "labels": "0,1,31,127,254,255 (256-byte fields), every length 0..30 (32-byte fields)",
                     "data2d": "up to 3x2 / 2x3 cells, <=3 points", "cameras": "0-3", "events": "0-3 events, 0-3 values"},
    },
    "outside_bounds": ["larger shapes", "value round trip of a frame whose gap-deciding component is +-inf (the library stores it as a gap; sizes are checked to agree for n<=3)",
                       "BTS camera records with fewer than 70 coefficients (precondition)", "the capture leg is concrete", "Data2D cells with zero points (decode to None)",
                       "byFrame formats (not implemented by the library)"],
    "assumptions": ["symnp model of numpy 1.26.4 (validated per run by witness replay on the real build)",
                    "Data2D camera map set through the private attribute, as the repository's own test does",
                    "datetime.now() arbitrary"],
}


def capture_case(tier):
    """every block of the BTS-recorded capture: nBytes == jump-table size == bytes consumed"""
    def h(I):
        from symtdf import symfile as SF
        from . import blocks as B
        from . import c06

        with open(c06.CAPTURE, "rb") as fh:
            raw = fh.read()
        st = type("S", (), {"load_range": lambda self, a, n: list(raw[a:a + n]), "length": len(raw)})()
        tab = SF.parse_table(st)
        for e in tab["entries"]:
            if e["type"] == 0:
                continue
            kind = c06.KIND_OF_TYPE.get(e["type"])
            if kind is None or (kind == "data2d" and tier == "quick"):
                continue
            data = raw[e["offset"]:e["offset"] + e["size"]]
            dec, pos = B.decode(I, kind, data + b"\xA5" * 7, e["format"])
            I.observe(kind, [pos, dec.nBytes])
            I.prove(f"C02.capture.{kind}.decode_consumes_exactly_the_jump_table_size", pos == e["size"], f"pos={pos} size={e['size']}")
            I.prove(f"C02.capture.{kind}.nBytes_equals_jump_table_size", dec.nBytes == e["size"], f"nBytes={dec.nBytes} size={e['size']}")
            again = B.encode(I, dec)
            I.prove(f"C02.capture.{kind}.reencoded_length_equals_nBytes", len(again) == dec.nBytes)
        I.goal("done")
    return h


def instances(tier):
    from symtdf.runner import Instance

    return codec.instances_for("C02", tier) + [Instance("capture", capture_case(tier), goals=["done"], cost=1000)]
