"""C11 - container property checked by the shared inductive step harness (harness/cstep.py)."""
from . import cstep

PROPERTY = "C11"
META = {
    "explanation": "one (to three) real add_block/remove_block/replace_block/setter call(s) executed symbolically from an arbitrary compact well-formed pre-state on a SymFile: table length and live pattern enumerated; every block size, offset, format code, date, comment character and payload byte symbolic; assertions on an independent parse of the committed file",
    "bounds": {"quick": {"table_length_N": "1-3", "live_slots": "0..N (two type orders)", "steps": "1, plus 2-step sequences; library-only histories of length <= 3 from the real Tdf.new output (7-operation alphabet)", "sizes": "any >= 1 with file < 2 GiB"},
               "thorough": {"table_length_N": "1-6, 14", "live_slots": "0..N (14: 0, 3, 13 and 14 = full table)", "steps": "1-3; library-only histories of length <= 4 from the real Tdf.new output", "sizes": "any >= 1 with file < 2 GiB"}},
    "outside_bounds": ["non-compact foreign files", "files of 2 GiB or more", "table lengths other than those listed", "I/O errors, concurrent writers"],
    "assumptions": ["OpaqueBlock stands for any block whose _write emits nBytes bytes (discharged for real blocks by C02)",
                    "SymFile buffering contract: writes become visible at flush/seek/read/truncate/close",
                    "induction: the step obligations are discharged from an arbitrary pre-state satisfying the compactness invariant"],
}


def close_replace_case(via):
    """A REAL force-platform data block is stored; it is then replaced (setter /
    replace_block) by a block that differs from it in one sample by less than numpy's
    default tolerance.  The assignment succeeds, so the file must hold the new block."""
    def h(I):
        from . import blocks as B
        from symtdf.runner import Instance  # noqa: F401
        fs = I.fs()
        Tdf = I.mod("basictdf").Tdf
        sh = {"n": 1, "plats": 1}
        base = I.farray("a.p0.f", (1, 3))
        fa = base.copy()
        fb = base.copy()
        fa[0, 2] = 500.0010070800781  # float32(500.001)
        fb[0, 2] = 500.0
        a = B.build(I, "fpdata", sh, "a", ov={"a.p0.f": fa})
        b = B.build(I, "fpdata", sh, "a", ov={"a.p0.f": fb})
        want = B.encode(I, b)
        spec = {"n": 2, "version": 1, "hdates": [0, 0, 0], "slots": [{"type": 0, "format": 0, "size": 0, "dates": [0, 0, 0], "comment": "x"} for _ in range(2)]}
        fs.create("f.tdf", spec)
        with Tdf(fs.path("f.tdf")).allow_write() as t:
            t.add_block(a, "c")
            try:
                if via == "setter":
                    t.force_platforms_data = b
                elif via == "replace":
                    t.replace_block(b)
                else:
                    t.replace_block(b, "c")
                exc = None
            except Exception as e:  # noqa: BLE001
                exc = e
            I.observe("exc", type(exc).__name__ if exc else None)
            I.prove("C11.setter_on_a_present_type_replaces_the_block.accepted", exc is None, f"{type(exc).__name__ if exc else ''}")
            back = t.force_platforms_data
        obs = fs.obs("f.tdf")
        Pm = obs.parse()
        live = [e for e in Pm["entries"] if e["type"] != 0]
        I.prove("C11.at_most_one_block_per_type", len(live) == 1)
        if len(live) == 1 and exc is None:
            e = live[0]
            stored = obs.range(e["offset"], len(want))
            I.observe("stored", stored)
            I.prove("C11.setter_on_a_present_type_replaces_the_block.bytes_on_disk_are_the_new_block", I.and_(e["size"] == len(want), stored == want), via)
            I.prove("C11.setter_on_a_present_type_replaces_the_block.getter_returns_the_new_block", B.encode(I, back) == want, via)
        I.goal("done")
    return h


def instances(tier):
    from symtdf.runner import Instance
    out = cstep.instances_for("C11", tier)
    # Tdf.new-sized tables (14 slots) that end up holding exactly two blocks, for every ordered
    # pair of the writable types: the presence checks and getters are evaluated on each
    writable = [2, 4, 5, 6, 7, 9, 11, 12, 16]
    for t1 in writable:
        for t2 in writable:
            if t1 < t2 or (tier != "quick" and t1 != t2):
                out.append(Instance(f"N14.live{t1}.add_{t2}_default", cstep.step_case("C11", 14, (t1,), (("add", t2, "default"),)), goals=["done"], cost=14))
    for via in ("setter", "replace", "replace_same_comment"):
        out.append(Instance(f"close_block.{via}", close_replace_case(via), goals=["done"], cost=20))
    return out
