"""C07 - container property checked by the shared inductive step harness (harness/cstep.py)."""
from . import cstep

PROPERTY = "C07"
META = {
    "explanation": "one (to three) real add_block/remove_block/replace_block/setter call(s) executed symbolically from an arbitrary compact well-formed pre-state on a SymFile: table length and live pattern enumerated; every block size, offset, format code, date, comment character and payload byte symbolic; assertions on an independent parse of the committed file",
    "bounds": {"quick": {"table_length_N": "1-3", "live_slots": "0..N (two type orders)", "steps": "1, plus 2-step sequences", "sizes": "any >= 1 with file < 2 GiB"},
               "thorough": {"table_length_N": "1-6, 14", "live_slots": "0..N (14: 0 and 3)", "steps": "1-3", "sizes": "any >= 1 with file < 2 GiB"}},
    "rejection_causes": ["type already present", "table full", "type absent (remove / replace)", "comment of 256 / 257 / 300 characters", "comment not cp1252-encodable", "block raises before writing", "block raises after writing a symbolic non-empty prefix", "object that is not a Block", "creation date outside 32-bit seconds", "unused slot in front of a used one (tables [0, live...] and [live, 0, live...]) for add / replace / setters"],
    "outside_bounds": ["non-compact foreign files other than the listed tables with an unused slot in front of used ones", "files of 2 GiB or more", "table lengths other than those listed", "I/O errors, concurrent writers"],
    "assumptions": ["OpaqueBlock stands for any block whose _write emits nBytes bytes (discharged for real blocks by C02)",
                    "SymFile buffering contract: writes become visible at flush/seek/read/truncate/close",
                    "induction: the step obligations are discharged from an arbitrary pre-state satisfying the compactness invariant"],
}


def instances(tier):
    return cstep.instances_for("C07", tier)
