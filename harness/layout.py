"""Independent layout-driven reference encoder / decoder for the nine block types.

Written from the format description in DESIGN.md Appendix A; it shares no code with
basictdf.  Values are handled at byte level: numeric fields are raw little-endian bytes
(concrete bytes or SBytes), strings are the bytes before the first NUL, counts and enum
codes are concrete ints.  The decoder returns, besides the fields, which byte positions
the format leaves undefined ("don't care": reserved words, padding, string tails, the
256-byte pad of platform calibration records).

Field names match harness/blocks.py:fields so both sides can be compared entry by entry.
"""
from __future__ import annotations

from symtdf.sbytes import SBytes, items_of, mkbytes

from . import blocks as B


class LayoutError(Exception):
    pass


def _cat(parts):
    items = []
    for p in parts:
        items.extend(items_of(p))
    return mkbytes(items)


def i32b(v: int) -> bytes:
    return int(v).to_bytes(4, "little", signed=True)


def u32b(v: int) -> bytes:
    return int(v).to_bytes(4, "little", signed=False)


def text_field(I, s, width: int):
    """encoded text + NUL + zero padding; refuses what does not fit"""
    b = s if isinstance(s, (bytes, SBytes)) else s.encode("windows-1252")
    if len(b) >= width:
        raise LayoutError("text does not fit its field")
    return _cat([b, b"\x00" * (width - len(b))])


class Cur:
    def __init__(self, data) -> None:
        self.items = list(items_of(data))
        self.pos = 0
        self.dc = []  # don't-care byte positions
        self.shapepos = []  # positions of shape-bearing bytes (counts, enum codes, segment tables)
        self.textpos = []  # positions of text bytes before a terminator
        self.nulpos = []  # positions of string terminators

    def take(self, n: int):
        if self.pos + n > len(self.items):
            raise LayoutError("buffer too short")
        r = self.items[self.pos:self.pos + n]
        self.pos += n
        return mkbytes(r)

    def skip_dc(self, n: int):
        if self.pos + n > len(self.items):
            raise LayoutError("buffer too short")
        self.dc.extend(range(self.pos, self.pos + n))
        self.pos += n

    def cint(self, n: int, signed: bool) -> int:
        self.shapepos.extend(range(self.pos, self.pos + n))
        b = self.take(n)
        if not isinstance(b, bytes):
            raise LayoutError("shape-bearing field is not concrete")
        return int.from_bytes(b, "little", signed=signed)

    def text(self, width: int):
        start = self.pos
        raw = self.items[start:start + width]
        if len(raw) != width:
            raise LayoutError("buffer too short")
        cut = None
        for i, x in enumerate(raw):
            if isinstance(x, int) and x == 0:
                cut = i
                break
            if not isinstance(x, int):
                # symbolic byte inside the text part: the harness guarantees non-NUL
                continue
        self.pos += width
        if cut is None:
            self.textpos.extend(range(start, start + width))
            return mkbytes(raw)
        self.textpos.extend(range(start, start + cut))
        self.nulpos.append(start + cut)
        self.dc.extend(range(start + cut + 1, start + width))
        return mkbytes(raw[:cut])

    def segments(self):
        n = self.cint(4, True)
        self.skip_dc(4)
        if n < 0 or n > 100000:
            raise LayoutError("bad segment count")
        return [(self.cint(4, True), self.cint(4, True)) for _ in range(n)]


def _frames_from_runs(I, cur: Cur, n: int, segs, comps: int):
    """-> B.Frames-like rows: present frames carry their bytes, others are gaps."""
    rows = [None] * n
    for a, c in segs:
        for f in range(a, a + c):
            if f < 0 or f >= n:
                raise LayoutError("run outside the frame range")
            rows[f] = cur.take(4 * comps)
    fr = B.Frames.__new__(B.Frames)
    fr.rows = [(r if r is not None else None, r is None) for r in rows]
    return fr


def frames_eq(I, ref_fr, real_fr):
    """ref rows: (bytes | None, is_gap)   real rows: (bytes, allnan-cond)"""
    if len(ref_fr.rows) != len(real_fr.rows):
        return False
    conds = []
    for (rb, gap), (xb, xnan) in zip(ref_fr.rows, real_fr.rows):
        conds.append(xnan if gap else (rb == xb))
    return I.and_(*conds) if conds else True


# ---------------------------------------------------------------------------------
# decode
# ---------------------------------------------------------------------------------


def ref_decode(I, kind: str, data, fmt: int):
    """-> (fields list like blocks.fields, bytes consumed, don't-care positions)"""
    c = Cur(data)
    out = []
    A = out.append
    A(("format", fmt))
    if kind == "data3d":
        if fmt not in (1, 2):
            raise LayoutError("format not covered by the reference decoder")
        nF = c.cint(4, True)
        A(("nFrames", i32b(nF)))
        A(("frequency", c.take(4)))
        A(("startTime", c.take(4)))
        nT = c.cint(4, False)
        A(("volume", c.take(12)))
        A(("rotationMatrix", c.take(36)))
        A(("translationVector", c.take(12)))
        A(("flag", c.cint(4, False)))
        if fmt == 1:
            nL = c.cint(4, True)
            c.skip_dc(4)
            A(("nLinks", nL))
            A(("links", c.take(8 * nL) if nL else b""))
        A(("nTracks", nT))
        for k in range(nT):
            A((f"track{k}.label", c.text(256)))
            A((f"track{k}.nFrames", nF))
            segs = c.segments()
            A((f"track{k}.data", _frames_from_runs(I, c, nF, segs, 3)))
    elif kind == "emg":
        nS = c.cint(4, True)
        A(("frequency", c.take(4)))
        A(("startTime", c.take(4)))
        n = c.cint(4, True) + 49
        A(("nSamples", i32b(n)))
        A(("nSignals", nS))
        A(("channels", c.take(2 * nS) if nS else b""))
        for k in range(nS):
            A((f"signal{k}.label", c.text(256)))
            A((f"signal{k}.nSamples", n))
            segs = c.segments()
            A((f"signal{k}.data", _frames_from_runs(I, c, n, segs, 1)))
    elif kind == "force3d":
        nT = c.cint(4, True)
        A(("frequency", c.take(4)))
        A(("startTime", c.take(4)))
        nF = c.cint(4, True)
        A(("nFrames", i32b(nF)))
        A(("volume", c.take(12)))
        A(("rotationMatrix", c.take(36)))
        A(("translationVector", c.take(12)))
        c.skip_dc(4)
        A(("nTracks", nT))
        for k in range(nT):
            A((f"track{k}.label", c.text(256)))
            A((f"track{k}.nFrames", nF))
            segs = c.segments()
            A((f"track{k}.data", _frames_from_runs(I, c, nF, segs, 9)))
    elif kind == "fpdata":
        nP = c.cint(4, True)
        A(("frequency", c.take(4)))
        A(("startTime", c.take(4)))
        nF = c.cint(4, True)
        A(("nFrames", i32b(nF)))
        A(("nPlatforms", nP))
        A(("channels", c.take(2 * nP) if nP else b""))
        for k in range(nP):
            A((f"plat{k}.nFrames", nF))
            segs = c.segments()
            A((f"plat{k}.data", _frames_from_runs(I, c, nF, segs, 6)))
    elif kind == "fpcal":
        nP = c.cint(4, True)
        c.skip_dc(4)
        A(("nPlatforms", nP))
        A(("channels", c.take(2 * nP) if nP else b""))
        for k in range(nP):
            A((f"plat{k}.label", c.text(256)))
            A((f"plat{k}.size", c.take(8)))
            A((f"plat{k}.position", c.take(48)))
            c.skip_dc(256)
    elif kind == "data2d":
        nC = c.cint(4, True)
        nF = c.cint(4, True)
        A(("nCams", i32b(nC)))
        A(("nFrames", i32b(nF)))
        A(("frequency", c.take(4)))
        A(("startTime", c.take(4)))
        A(("flags", c.cint(4, False)))
        A(("camMap", c.take(2 * nC) if nC else b""))
        counts = [[c.cint(2, False) for _ in range(nF)] for _ in range(nC)]  # camera-major
        A(("shape", (nF, nC)))
        for f in range(nF):
            for cam in range(nC):
                k = counts[cam][f]
                A((f"cell{f}_{cam}", None if k == 0 else ((k, 2), c.take(8 * k))))
    elif kind == "calib":
        nC = c.cint(4, True)
        A(("distorsion_model", c.cint(4, True)))
        A(("volume", c.take(12)))
        A(("rotation", c.take(36)))
        A(("translation", c.take(12)))
        A(("nCams", nC))
        A(("map", c.take(2 * nC) if nC else b""))
        for k in range(nC):
            A((f"cam{k}.class", "SeelabCameraData" if fmt == 1 else "BTSCameraData"))
            A((f"cam{k}.rotation", c.take(72)))
            A((f"cam{k}.translation", c.take(24)))
            A((f"cam{k}.focus", c.take(16)))
            A((f"cam{k}.optical_center", c.take(16)))
            if fmt == 1:
                A((f"cam{k}.radial", c.take(16)))
                A((f"cam{k}.decentering", c.take(16)))
                A((f"cam{k}.thin_prism", c.take(16)))
            elif fmt == 2:
                A((f"cam{k}.xd", c.take(560)))
                A((f"cam{k}.yd", c.take(560)))
            else:
                raise LayoutError("calibration format")
            A((f"cam{k}.vp.origin", c.take(8)))
            A((f"cam{k}.vp.size", c.take(8)))
    elif kind == "optical":
        nCh = c.cint(4, True)
        c.skip_dc(4)
        A(("nChannels", nCh))
        for k in range(nCh):
            A((f"ch{k}.index", c.take(4)))
            c.skip_dc(4)
            A((f"ch{k}.lens", c.text(32)))
            A((f"ch{k}.type", c.text(32)))
            A((f"ch{k}.name", c.text(32)))
            A((f"ch{k}.vp.origin", c.take(8)))
            A((f"ch{k}.vp.size", c.take(8)))
    elif kind == "events":
        nE = c.cint(4, True)
        A(("start_time", c.take(4)))
        A(("nEvents", nE))
        for k in range(nE):
            A((f"event{k}.label", c.text(256)))
            A((f"event{k}.type", c.cint(4, False)))
            nI = c.cint(4, True)
            A((f"event{k}.nValues", nI))
            A((f"event{k}.values", c.take(4 * nI) if nI else b""))
    else:
        raise ValueError(kind)
    ref_decode.last_cursor = c
    return out, c.pos, c.dc


def symbolize(I, data: bytes, kind: str, fmt: int, tag: str = "cap"):
    """A buffer shaped like `data` (same counts, enum codes, run tables and terminator
    positions) in which every other byte is symbolic: text bytes are arbitrary non-NUL
    decodable bytes, numeric and don't-care bytes are arbitrary."""
    import z3
    from symtdf.sbytes import dec_ok_e, item_bv

    _, consumed, dc = ref_decode(I, kind, data, fmt)
    c = ref_decode.last_cursor
    fixed = set(c.shapepos) | set(c.nulpos)
    # channel maps must be pairwise distinct for a block to be valid: kept as recorded
    n0 = int.from_bytes(data[0:4], "little", signed=True)
    if kind == "fpcal":
        fixed |= set(range(8, 8 + 2 * n0))
    elif kind in ("emg", "fpdata"):
        fixed |= set(range(16, 16 + 2 * n0))
    text = set(c.textpos)
    sym = list(items_of(I.rawbytes(tag, consumed)))
    out = []
    for p in range(consumed):
        if p in fixed:
            out.append(data[p])
        else:
            x = sym[p]
            if p in text and not isinstance(x, int):
                I.assume(z3.And(item_bv(x) != 0, dec_ok_e(item_bv(x))))
            elif p in text and (x == 0 or bytes([x]).decode("cp1252", "ignore") == ""):
                x = 0x41
            out.append(x)
    return mkbytes(out), consumed


# ---------------------------------------------------------------------------------
# encode (from the field list of blocks.fields)
# ---------------------------------------------------------------------------------


def _runs(I, fr):
    mask = [not I.truth(nan) for _, nan in fr.rows]
    out, start = [], None
    for i, m in enumerate(mask):
        if m and start is None:
            start = i
        if not m and start is not None:
            out.append((start, i - start))
            start = None
    if start is not None:
        out.append((start, len(mask) - start))
    return out, mask


def _seg_block(I, fr):
    runs, mask = _runs(I, fr)
    parts = [i32b(len(runs)), b"\x00" * 4]
    for a, c in runs:
        parts += [i32b(a), i32b(c)]
    for (rb, _), m in zip(fr.rows, mask):
        if m:
            parts.append(rb)
    return parts


def ref_encode(I, kind: str, fl):
    """fields (as returned by blocks.fields on a block) -> canonical bytes"""
    d = dict(fl)
    fmt = d["format"]
    P = []
    if kind == "data3d":
        P += [d["nFrames"], d["frequency"], d["startTime"], u32b(d["nTracks"]), d["volume"], d["rotationMatrix"], d["translationVector"], u32b(d["flag"])]
        if fmt in (1, 3):
            P += [i32b(d["nLinks"]), b"\x00" * 4, d["links"]]
        for k in range(d["nTracks"]):
            P.append(text_field(I, d[f"track{k}.label"], 256))
            P += _seg_block(I, d[f"track{k}.data"])
    elif kind == "emg":
        P += [i32b(d["nSignals"]), d["frequency"], d["startTime"]]
        n = int.from_bytes(d["nSamples"], "little", signed=True)
        P += [i32b(n - 49), d["channels"]]
        for k in range(d["nSignals"]):
            P.append(text_field(I, d[f"signal{k}.label"], 256))
            P += _seg_block(I, d[f"signal{k}.data"])
    elif kind == "force3d":
        P += [i32b(d["nTracks"]), d["frequency"], d["startTime"], d["nFrames"], d["volume"], d["rotationMatrix"], d["translationVector"], b"\x00" * 4]
        for k in range(d["nTracks"]):
            P.append(text_field(I, d[f"track{k}.label"], 256))
            P += _seg_block(I, d[f"track{k}.data"])
    elif kind == "fpdata":
        P += [i32b(d["nPlatforms"]), d["frequency"], d["startTime"], d["nFrames"], d["channels"]]
        for k in range(d["nPlatforms"]):
            P += _seg_block(I, d[f"plat{k}.data"])
    elif kind == "fpcal":
        P += [i32b(d["nPlatforms"]), b"\x00" * 4, d["channels"]]
        for k in range(d["nPlatforms"]):
            P += [text_field(I, d[f"plat{k}.label"], 256), d[f"plat{k}.size"], d[f"plat{k}.position"], b"\x00" * 256]
    elif kind == "data2d":
        nF, nC = d["shape"]
        P += [d["nCams"], d["nFrames"], d["frequency"], d["startTime"], u32b(d["flags"]), d["camMap"]]
        for cam in range(nC):
            for f in range(nF):
                cell = d[f"cell{f}_{cam}"]
                P.append((0 if cell is None else cell[0][0]).to_bytes(2, "little"))
        for f in range(nF):
            for cam in range(nC):
                cell = d[f"cell{f}_{cam}"]
                if cell is not None:
                    P.append(cell[1])
    elif kind == "calib":
        P += [i32b(d["nCams"]), i32b(d["distorsion_model"]), d["volume"], d["rotation"], d["translation"], d["map"]]
        for k in range(d["nCams"]):
            P += [d[f"cam{k}.rotation"], d[f"cam{k}.translation"], d[f"cam{k}.focus"], d[f"cam{k}.optical_center"]]
            if fmt == 1:
                P += [d[f"cam{k}.radial"], d[f"cam{k}.decentering"], d[f"cam{k}.thin_prism"]]
            else:
                P += [d[f"cam{k}.xd"], d[f"cam{k}.yd"]]
            P += [d[f"cam{k}.vp.origin"], d[f"cam{k}.vp.size"]]
    elif kind == "optical":
        P += [i32b(d["nChannels"]), b"\x00" * 4]
        for k in range(d["nChannels"]):
            P += [d[f"ch{k}.index"], b"\x00" * 4, text_field(I, d[f"ch{k}.lens"], 32), text_field(I, d[f"ch{k}.type"], 32),
                  text_field(I, d[f"ch{k}.name"], 32), d[f"ch{k}.vp.origin"], d[f"ch{k}.vp.size"]]
    elif kind == "events":
        P += [i32b(d["nEvents"]), d["start_time"]]
        for k in range(d["nEvents"]):
            P += [text_field(I, d[f"event{k}.label"], 256), u32b(d[f"event{k}.type"]), i32b(d[f"event{k}.nValues"]), d[f"event{k}.values"]]
    else:
        raise ValueError(kind)
    return _cat(P)


def field_eq(I, ref_v, real_v):
    """ref field value vs. a value of blocks.fields taken from a real block"""
    from . import container as C

    if isinstance(ref_v, B.Frames) and isinstance(real_v, B.Frames):
        return frames_eq(I, ref_v, real_v)
    if isinstance(ref_v, tuple) and isinstance(real_v, tuple):
        if len(ref_v) != len(real_v):
            return False
        return I.and_(*[field_eq(I, a, b) for a, b in zip(ref_v, real_v)]) if ref_v else True
    if (ref_v is None) != (real_v is None):
        return False
    if ref_v is None:
        return True
    if isinstance(ref_v, (bytes, SBytes)) and not isinstance(real_v, (bytes, SBytes, int, tuple)):
        # text: compare at byte level
        return C.text_eq(I, ref_v, real_v)
    return ref_v == real_v
