"""C16 - no track of the wrong length enters a block; list assignment is all-or-nothing.

Real functions: Data3D.add_track / tracks setter, ForceTorque3D.add_track / tracks setter,
EMG.addSignal.  Symbolic: the block's frame count (any int >= 0), labels.
Enumerated: track lengths 0..2, wrong-kind objects, list shapes, op sequences.
"""
import itertools

from symtdf.runner import Instance
from . import simple as S

PROPERTY = "C16"
META = {
    "explanation": "symbolic execution of the real add/assign methods with the block's frame count a solver variable (every comparison track.nFrames != block.nFrames is solver-decided); operation sequences enumerated",
    "bounds": {"quick": {"frame_count": "any int >= 0 (symbolic)", "track_lengths": "0-2", "sequence_length": "<= 2", "list_length": "<= 3", "wrong_kinds": "None, other track class, track-like, tuple / list of tracks (quick); + int, str, ndarray, block (thorough)"},
               "thorough": {"frame_count": "any int >= 0 (symbolic)", "track_lengths": "0-3", "sequence_length": "<= 3", "list_length": "<= 3"}},
    "outside_bounds": ["direct mutation of the list returned by .tracks (not through the interface)", "longer sequences / lists"],
    "assumptions": [],
}

CLASSES = ["data3d", "force3d", "emg"]


def _wrong(I, cls, kind):
    np = I.np
    if kind == "None":
        return None
    if kind == "int":
        return 3
    if kind == "str":
        return "x"
    if kind == "ndarray":
        return np.zeros((1, 3), dtype="<f4")
    if kind == "other_track":
        other = {"data3d": "emg", "force3d": "data3d", "emg": "data3d"}[cls]
        return S.new_item(I, other, "o", 1)
    if kind == "track_like":
        # an object of another class that has the frame-count attribute the block checks
        if cls == "data3d":
            return S.new_item(I, "force3d", "o", 1)
        if cls == "force3d":
            return S.new_item(I, "data3d", "o", 1)

        class _Fake:
            label = "fake"
            nSamples = 1
        return _Fake()
    if kind == "tuple_tracks":
        # a container of tracks where one track is expected: not a track (each element
        # would be valid for a block of one frame)
        return (S.new_item(I, cls, "p", 1), S.new_item(I, cls, "q", 1))
    if kind == "list_tracks":
        return [S.new_item(I, cls, "p", 1), S.new_item(I, cls, "q", 2)]
    if kind == "block_like":
        return S.new_block(I, "force3d" if cls == "data3d" else "data3d", 1)
    raise ValueError(kind)


def _elem(I, cls, spec, tag):
    if spec[0] == "T":
        return S.new_item(I, cls, I.chars(f"{tag}.lab", 1, kind="valid"), spec[1]), ("T", spec[1])
    return _wrong(I, cls, spec[1]), ("W", spec[1])


def seq_case(cls, ops):
    def h(I):
        N = I.int("N", 0, None)
        blk = S.new_block(I, cls, N)
        nf = "nSamples" if cls == "emg" else "nFrames"

        def lenof(t):
            return t.nSamples if cls == "emg" else t.nFrames

        def invariant(where):
            cur = list(S.items_of(cls, blk))
            ok_cls = all(type(t).__name__ == {"data3d": "MarkerTrack", "force3d": "ForceTorqueTrack", "emg": "EMGTrack"}[cls] for t in cur)
            I.prove(f"C16.{cls}.only_right_kind_contained", ok_cls, where)
            if ok_cls:
                I.prove(f"C16.{cls}.all_tracks_have_block_frame_count", I.and_(*[lenof(t) == N for t in cur]) if cur else True, where)

        for step, op in enumerate(ops):
            before = list(S.items_of(cls, blk))
            if op[0] == "add":
                x, desc = _elem(I, cls, op[1], f"s{step}")
                try:
                    if cls == "emg":
                        blk.addSignal(x)
                    else:
                        blk.add_track(x)
                    exc = None
                except Exception as e:  # noqa: BLE001
                    exc = e
                after = list(S.items_of(cls, blk))
                I.observe(f"step{step}", [type(exc).__name__ if exc else None, len(after)])
                if exc is not None:
                    I.goal("refused")
                    I.prove(f"C16.{cls}.refused_add_leaves_block_unchanged", len(after) == len(before) and all(a is b for a, b in zip(after, before)))
                    if desc[0] == "T":
                        I.prove(f"C16.{cls}.valid_add_accepted", I.not_(desc[1] == N), "a track of the right length was refused")
                        I.prove(f"C16.{cls}.wrong_length_is_ValueError", isinstance(exc, ValueError))
                    else:
                        I.prove(f"C16.{cls}.wrong_kind_is_TypeError", isinstance(exc, TypeError))
                else:
                    I.goal("accepted")
                    I.prove(f"C16.{cls}.accepted_add_appends_exactly_one", len(after) == len(before) + 1 and after[-1] is x and all(a is b for a, b in zip(after, before)))
                    I.prove(f"C16.{cls}.wrong_kind_never_accepted", desc[0] == "T")
            elif op[0] == "selfset":
                # the assigned value is (derived from) the block's own list: every element is
                # a valid track of this block, so the assignment must install exactly them
                own = blk.tracks
                xs = list(reversed(before)) if op[1] == "reversed" else list(before)
                val = {"same": own, "gen": (t for t in own), "reversed": reversed(own), "copy": list(own)}[op[1]]
                try:
                    blk.tracks = val
                    exc = None
                except Exception as e:  # noqa: BLE001
                    exc = e
                after = list(S.items_of(cls, blk))
                I.observe(f"step{step}", [type(exc).__name__ if exc else None, len(after)])
                I.goal("self_assigned")
                I.prove(f"C16.{cls}.assigning_own_tracks_is_accepted", exc is None, f"{type(exc).__name__ if exc else ''}")
                if exc is None:
                    I.prove(f"C16.{cls}.accepted_assignment_installs_exactly_the_list", len(after) == len(xs) and all(a is b for a, b in zip(after, xs)),
                            f"own list ({op[1]}): {len(xs)} before, {len(after)} after")
            else:  # assign a whole list
                xs, descs = [], []
                for j, spec in enumerate(op[1]):
                    x, d = _elem(I, cls, spec, f"s{step}e{j}")
                    xs.append(x)
                    descs.append(d)
                val = xs if op[2] == "list" else (iter(xs) if op[2] == "iter" else (tuple(xs) if op[2] == "tuple" else None))
                try:
                    blk.tracks = val
                    exc = None
                except Exception as e:  # noqa: BLE001
                    exc = e
                after = list(S.items_of(cls, blk))
                I.observe(f"step{step}", [type(exc).__name__ if exc else None, len(after)])
                if exc is not None:
                    I.goal("assign_refused")
                    I.prove(f"C16.{cls}.refused_assignment_keeps_previous_tracks", len(after) == len(before) and all(a is b for a, b in zip(after, before)))
                    allvalid = [d[1] == N for d in descs if d[0] == "T"]
                    if op[2] != "none" and all(d[0] == "T" for d in descs):
                        I.prove(f"C16.{cls}.valid_list_accepted", I.not_(I.and_(*allvalid)) if allvalid else False, "a list of valid tracks was refused")
                else:
                    I.goal("assign_accepted")
                    I.prove(f"C16.{cls}.accepted_assignment_installs_exactly_the_list", len(after) == len(xs) and all(a is b for a, b in zip(after, xs)))
            invariant(f"after step {step}")
    return h


def shaped_track_case(cls, N, shape):
    """A track whose sample array is not 1-D (row vector, 2 x N/2 ...): its own frame count
    is the leading extent; it enters the block only if that equals the block's count."""
    def h(I):
        np = I.np
        blk = S.new_block(I, cls, N)
        m = I.mod({"emg": "tdfEMG", "data3d": "tdfData3D"}[cls])
        data = I.farray("d", shape)
        t = m.EMGTrack("a", data) if cls == "emg" else m.MarkerTrack("a", data)
        own = t.nSamples if cls == "emg" else t.nFrames
        before = list(S.items_of(cls, blk))
        try:
            blk.addSignal(t) if cls == "emg" else blk.add_track(t)
            exc = None
        except Exception as e:  # noqa: BLE001
            exc = e
        after = list(S.items_of(cls, blk))
        I.observe("r", [type(exc).__name__ if exc else None, len(after), own])
        if own != N:
            I.goal("refused")
            I.prove(f"C16.{cls}.all_tracks_have_block_frame_count", exc is not None and len(after) == len(before), f"track of shape {shape} (frame count {own}) offered to a block of {N}")
        else:
            I.goal("accepted")
            I.prove(f"C16.{cls}.valid_add_accepted", exc is None, f"shape {shape}")
    return h


def _alphabet(cls, tier):
    q = tier == "quick"
    lens = [0, 1, 2] if q else [0, 1, 2, 3]
    ops = [("add", ("T", L)) for L in lens]
    ops += [("add", ("W", k)) for k in (["None", "other_track", "track_like", "tuple_tracks", "list_tracks"] if q else ["None", "int", "str", "ndarray", "other_track", "track_like", "block_like", "tuple_tracks", "list_tracks"])]
    if cls != "emg":
        lists = [
            ([], "list"), ([("T", 1)], "list"), ([("T", 1), ("T", 1)], "list"), ([("T", 1), ("T", 2)], "list"),
            ([("T", 1), ("W", "None")], "list"), ([("W", "other_track"), ("T", 1)], "list"), ([("T", 2), ("T", 2), ("T", 1)], "tuple"),
            ([("T", 1), ("T", 1)], "iter"), ([], "none"), ([("T", 1), ("W", "track_like")], "list"), ([("T", 1), ("W", "tuple_tracks")], "list"),
        ]
        if not q:
            lists += [([("T", 0)], "list"), ([("T", 1), ("T", 1), ("W", "int")], "list"), ([("T", 3), ("T", 3)], "iter"), ([("T", 2), ("W", "str"), ("T", 2)], "tuple")]
        ops += [("set", l, k) for l, k in lists]
        ops += [("selfset", k) for k in (["same", "gen"] if q else ["same", "gen", "reversed", "copy"])]
    return ops


def _opname(op):
    if op[0] == "add":
        return f"add{op[1][0]}{op[1][1]}"
    if op[0] == "selfset":
        return f"setown_{op[1]}"
    return "set[" + ",".join(f"{a}{b}" for a, b in op[1]) + "]" + op[2]


def instances(tier):
    out = []
    for N, shape in [(4, (1, 4)), (4, (2, 2)), (4, (4, 1)), (6, (2, 3)), (6, (3, 2)), (1, (1, 1)), (2, (1, 2))]:
        out.append(Instance(f"emg.shaped.N{N}.{'x'.join(map(str, shape))}", shaped_track_case("emg", N, shape), goals=["accepted" if shape[0] == N else "refused"]))
    for N, shape in [(3, (1, 3)), (3, (3, 3)), (1, (1, 3)), (9, (3, 3))]:
        out.append(Instance(f"data3d.shaped.N{N}.{'x'.join(map(str, shape))}", shaped_track_case("data3d", N, shape), goals=["accepted" if shape[0] == N else "refused"]))
    maxlen = 2 if tier == "quick" else 3
    for cls in CLASSES:
        alpha = _alphabet(cls, tier)
        for n in range(1, maxlen + 1):
            seqs = itertools.product(alpha, repeat=n)
            for seq in seqs:
                if n == 3 and sum(1 for o in seq if o[0] == "set") > 2:
                    continue
                out.append(Instance(f"{cls}." + ">".join(_opname(o) for o in seq), seq_case(cls, seq), cost=n))
    return out
