"""Small concrete-content blocks with symbolic labels (shared by C16, C18, C20)."""
from __future__ import annotations


def eye(I):
    np = I.np
    return dict(volume=np.zeros(3, dtype="<f4"), rotationMatrix=np.zeros((3, 3), dtype="<f4"), translationVector=np.zeros(3, dtype="<f4"))


def marker_track(I, label, n, fill=1.0):
    np = I.np
    m = I.mod("tdfData3D")
    a = np.zeros((n, 3), dtype="<f4")
    if n:
        a[...] = fill
    return m.MarkerTrack(label, a)


def force_track(I, label, n, fill=1.0):
    np = I.np
    m = I.mod("tdfForce3D")
    mk = lambda: np.zeros((n, 3), dtype="<f4")  # noqa: E731
    a, b, c = mk(), mk(), mk()
    if n:
        a[...] = fill
        b[...] = fill
        c[...] = fill
    return m.ForceTorqueTrack(label, a, b, c)


def emg_track(I, label, n, fill=1.0):
    np = I.np
    m = I.mod("tdfEMG")
    a = np.zeros((n,), dtype="<f4")
    if n:
        a[...] = fill
    return m.EMGTrack(label, a)


def event(I, label, nvals=1, kind=1):
    np = I.np
    m = I.mod("tdfEvents")
    return m.Event(label, np.zeros((nvals,), dtype="<f4"), m.EventsDataType(kind))


def new_block(I, cls: str, n=1):
    if cls == "data3d":
        return I.mod("tdfData3D").Data3D(frequency=100, nFrames=n, **eye(I))
    if cls == "force3d":
        return I.mod("tdfForce3D").ForceTorque3D(frequency=100, nFrames=n, **eye(I))
    if cls == "emg":
        return I.mod("tdfEMG").EMG(frequency=100, nSamples=n)
    if cls == "events":
        return I.mod("tdfEvents").TemporalEventsData()
    raise ValueError(cls)


def new_item(I, cls: str, label, n=1, fill=1.0, nvals=1):
    if cls == "data3d":
        return marker_track(I, label, n, fill)
    if cls == "force3d":
        return force_track(I, label, n, fill)
    if cls == "emg":
        return emg_track(I, label, n, fill)
    if cls == "events":
        return event(I, label, nvals=nvals)
    raise ValueError(cls)


def add_item(cls: str, blk, item, channel=None):
    if cls in ("data3d", "force3d"):
        blk.add_track(item)
    elif cls == "emg":
        blk.addSignal(item, channel=channel)
    else:
        blk.events.append(item)


def items_of(cls: str, blk):
    if cls in ("data3d", "force3d"):
        return blk.tracks
    if cls == "emg":
        return blk._signals
    return blk.events
