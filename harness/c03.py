"""C03 - container property checked by the shared inductive step harness (harness/cstep.py)."""
from . import cstep

PROPERTY = "C03"
META = {
    "explanation": "one (to three) real add_block/remove_block/replace_block/setter call(s) executed symbolically from an arbitrary compact well-formed pre-state on a SymFile: table length and live pattern enumerated; every block size, offset, format code, date, comment character and payload byte symbolic; assertions on an independent parse of the committed file",
    "bounds": {"quick": {"table_length_N": "1-3", "live_slots": "0..N (two type orders)", "steps": "1, plus 2-step sequences; library-only histories of length <= 3 from the real Tdf.new output (7-operation alphabet)", "sizes": "any >= 1 with file < 2 GiB"},
               "thorough": {"table_length_N": "1-6, 14", "live_slots": "0..N (14: 0, 3, 13 and 14 = full table)", "steps": "1-3; library-only histories of length <= 4 from the real Tdf.new output", "sizes": "any >= 1 with file < 2 GiB"}},
    "outside_bounds": ["foreign files whose blocks are stored in an order other than table order, its exact reverse or its rotation by one, or whose unused slots do not point at the end of data (covered: gapped files in table order - a symbolic number of undescribed bytes in front of every live block - and compact files stored in reversed / rotated table order, one- and two-step histories)", "files of 2 GiB or more", "table lengths other than those listed", "I/O errors, concurrent writers"],
    "assumptions": ["OpaqueBlock stands for any block whose _write emits nBytes bytes (discharged for real blocks by C02)",
                    "SymFile buffering contract: writes become visible at flush/seek/read/truncate/close",
                    "induction: the step obligations are discharged from an arbitrary pre-state satisfying the compactness invariant"],
}


def instances(tier):
    return cstep.instances_for("C03", tier)
