"""C17 - creating or copying a file never clobbers an existing one.

Real functions: Tdf.new, Tdf.copy, Tdf.__init__, Tdf.__enter__ on SymFS.
Symbolic: the full content and geometry of pre-existing files, datetime.now().
Enumerated: target kinds (absent, TDF, non-TDF, empty, symlink to one of those), source
states, source opened directly or through a symbolic link.
"""
from symtdf import symfile as SF
from symtdf.runner import Instance

from . import container as C
from .cstep import unchanged, apply_op, expected_model, check_model_vs_parse

PROPERTY = "C17"
META = {
    "explanation": "symbolic execution of the real Tdf.new / Tdf.copy / open path on a symbolic file system: contents and geometry of existing files are solver variables; the created file is parsed by the independent parser",
    "bounds": {"quick": {"existing_target": "TDF with N in {1,2} and 0-2 live blocks (symbolic), raw files of 0-20 symbolic bytes", "source": "N=2 with 0-2 live blocks; three concrete sources of about 200 KB with long zero runs (scale instances, executed, not solver claims)"},
               "thorough": {"existing_target": "TDF with N in 1-4 and 0-3 live blocks, raw files of 0-300 symbolic bytes", "source": "N in {1,2,3,4,6} with 0-3 live blocks, every target kind"}},
    "outside_bounds": ["directories, permissions, dangling or cyclic symlinks, hard links, races between exists() and open()", "I/O errors"],
    "assumptions": ["SymFS: exists/open/stat/copyfile as modelled (copyfile = byte copy of the committed content; symbolic links to regular files are followed by exists/open/stat and by copyfile unless follow_symlinks=False, which duplicates the link)", "datetime.now() arbitrary within 32-bit seconds"],
}


def _target(I, fs, kind, name):
    """-> (model or None)"""
    if kind == "absent":
        return None
    if kind.startswith("tdf"):
        n = int(kind[3])
        live = tuple(t for t, _ in C.POOL[: int(kind[4])])
        model, spec = C.make_prestate(I, fs, name, n, live, tag="tg")
        return ("tdf", model, n)
    if kind.startswith("raw"):
        k = int(kind[3:])
        fs.create_raw(name, I.rawbytes("tg.raw", k))
        return ("raw", None, k)
    if kind.startswith("lnk:"):
        # the target path is a symbolic link to an existing file
        info = _target(I, fs, kind[4:], "real." + name)
        fs.symlink(name, "real." + name)
        return info
    raise ValueError(kind)


def _same_as(I, P, fs, name, pre, tinfo, tag, suffix=""):
    if tinfo[0] == "tdf":
        unchanged(I, P, fs, pre, tinfo[1], None, None, tinfo[2], tag, suffix, name=name)
    else:
        obs = fs.obs(name)
        P("existing_target_length_unchanged" + suffix, obs.length == pre.length)
        if tinfo[2]:
            P("existing_target_bytes_unchanged" + suffix, obs.range(0, tinfo[2]) == pre.range(0, tinfo[2]))


def new_case(kind):
    def h(I):
        def P(label, cond, note=""):
            return I.prove(f"C17.{label}", cond, note)
        fs = I.fs()
        Tdf = I.mod("basictdf").Tdf
        tinfo = _target(I, fs, kind, "t.tdf")
        pre = fs.obs("t.tdf") if tinfo else None
        try:
            tdf = Tdf.new(fs.path("t.tdf"))
            exc = None
        except Exception as e:  # noqa: BLE001
            tdf, exc = None, e
        I.observe("exc", type(exc).__name__ if exc else None)
        if tinfo is not None:
            I.goal("exists")
            P("new_refuses_existing_target_with_FileExistsError", isinstance(exc, FileExistsError), f"{type(exc).__name__ if exc else 'created'}")
            _same_as(I, P, fs, "t.tdf", pre, tinfo, "n")
            return
        I.goal("absent")
        P("new_succeeds_on_absent_target", exc is None, f"{type(exc).__name__ if exc else ''}")
        if exc is not None:
            return
        obs = fs.obs("t.tdf")
        Pm = obs.parse()
        I.observe("table", [[e["type"], e["offset"], e["size"]] for e in Pm["entries"]])
        P("new_file_has_signature_and_version_1", I.and_(Pm["signature"] == SF.SIGNATURE, Pm["version"] == 1))
        P("new_file_has_14_unused_slots", Pm["n"] == 14 and all(e["type"] == 0 for e in Pm["entries"]))
        P("new_file_slots_point_at_4096_size_0", I.and_(*[I.and_(e["offset"] == 4096, e["size"] == 0) for e in Pm["entries"]]))
        P("new_file_is_exactly_header_plus_table", obs.length == 4096)
        P("new_file_reserved_fields_zero", I.and_(Pm["reserved1"] == b"\x00" * 8, Pm["reserved2"] == b"\x00" * 20, *[e["pad"] == b"\x00" * 4 for e in Pm["entries"]]))
        P("no_handle_left_open", fs.open_handles() == 0)
        # the new container is usable: one add from it keeps every invariant
        with tdf.allow_write() as t:
            tb = I.mod("tdfBlock")
            exc2, new, comment = apply_op(I, t, tb, ("add", 16, "given"), [], "a0", [4096])
            P("new_file_accepts_a_block", exc2 is None, f"{type(exc2).__name__ if exc2 else ''}")
            if exc2 is None:
                o2 = fs.obs("t.tdf")
                P2 = o2.parse()
                c03, c09 = C.inv_conditions(I, P2, 14)
                for k, v in {**c03, **c09}.items():
                    P("after_first_add." + k, v)
                check_model_vs_parse(I, lambda lab, c, n="": P("after_first_add." + lab, c, n), o2, expected_model([], ("add", 16, "given"), "append", new, comment), P2, "a0")
    return h


def copy_case(src_kind, dst_kind, later, via_link=False):
    """via_link: the source Tdf is opened through a symbolic link to s.tdf."""
    def h(I):
        def P(label, cond, note=""):
            return I.prove(f"C17.{label}", cond, note)
        fs = I.fs()
        Tdf = I.mod("basictdf").Tdf
        n = int(src_kind[3])
        live = tuple(t for t, _ in C.POOL[: int(src_kind[4])])
        smodel, sspec = C.make_prestate(I, fs, "s.tdf", n, live, tag="src")
        spre = fs.obs("s.tdf")
        tinfo = _target(I, fs, dst_kind, "d.tdf")
        dpre = fs.obs("d.tdf") if tinfo else None
        if via_link:
            fs.symlink("ln.tdf", "s.tdf")
        src = Tdf(fs.path("ln.tdf" if via_link else "s.tdf"))
        try:
            cp = src.copy(fs.path("d.tdf"))
            exc = None
        except Exception as e:  # noqa: BLE001
            cp, exc = None, e
        I.observe("exc", type(exc).__name__ if exc else None)
        unchanged(I, P, fs, spre, smodel, None, None, n, "s", ".source_after_copy", name="s.tdf")
        P("no_handle_left_open", fs.open_handles() == 0)
        if tinfo is not None:
            I.goal("exists")
            P("copy_refuses_existing_target_with_FileExistsError", isinstance(exc, FileExistsError), f"{type(exc).__name__ if exc else 'copied'}")
            _same_as(I, P, fs, "d.tdf", dpre, tinfo, "d")
            return
        I.goal("absent")
        P("copy_succeeds_on_absent_target", exc is None, f"{type(exc).__name__ if exc else ''}")
        if exc is not None:
            return
        # byte-identical: the copy satisfies "unchanged relative to the source pre-state"
        unchanged(I, P, fs, spre, smodel, None, None, n, "c", ".copy_identical_to_source", name="d.tdf")
        if later is None or len(live) >= n:
            return
        tb = I.mod("tdfBlock")
        which, other = (cp, "s.tdf") if later == "mutate_copy" else (src, "d.tdf")
        with which.allow_write() as t:
            exc2, new, comment = apply_op(I, t, tb, ("add", C.POOL[len(live)][0], "default"), smodel, "m0", [sspec["total"]])
        P("later_mutation_accepted", exc2 is None, f"{type(exc2).__name__ if exc2 else ''}")
        unchanged(I, P, fs, spre, smodel, None, None, n, "o", ".other_file_after_mutation", name=other)
    return h


def copy_scale_case(shape):
    """One concrete large source (beyond any chunk size a copy loop may use): a single
    block whose data ends in / contains long runs of zero bytes, as idle channels produce.
    The copy must have the source's length and bytes.  Executed through the file model on
    concrete bytes - a scale instance, not a solver claim."""
    def h(I):
        def P(label, cond, note=""):
            return I.prove(f"C17.{label}", cond, note)
        fs = I.fs()
        Tdf = I.mod("basictdf").Tdf
        Z = 65536
        pay = {"zero_tail": bytes([1]) * 1000 + bytes(3 * Z), "zero_middle": bytes([1]) * 700 + bytes(3 * Z) + bytes([2]) * 300,
               "zero_tail_aligned": bytes([7]) * (Z - 64 - 288) + bytes(2 * Z)}[shape]
        spec = {"n": 1, "version": 1, "hdates": [0, 0, 0],
                "slots": [{"type": 14, "format": 1, "size": len(pay), "dates": [0, 0, 0], "comment": "big", "payload": pay}]}
        fs.create("s.tdf", spec)
        spre = fs.obs("s.tdf")
        try:
            Tdf(fs.path("s.tdf")).copy(fs.path("d.tdf"))
            exc = None
        except Exception as e:  # noqa: BLE001
            exc = e
        P("copy_succeeds_on_absent_target", exc is None, f"{type(exc).__name__ if exc else ''}")
        if exc is None:
            d = fs.obs("d.tdf")
            P("copy_has_the_length_of_the_source", d.length == spre.length, f"{d.length} vs {spre.length}")
            n = min(int(d.length), int(spre.length))
            P("copy_has_the_bytes_of_the_source", bytes(d.range(0, n)) == bytes(spre.range(0, n)))
        P("no_handle_left_open", fs.open_handles() == 0)
        I.goal("done")
    return h


def copy_inside_context_case(src_kind, how):
    """copy() taken while the source is inside its own write context; the returned object
    is then used (directly, or through a context of its own) while that context is still
    open.  Whatever the library accepts, nothing may land in the source file."""
    def h(I):
        def P(label, cond, note=""):
            return I.prove(f"C17.{label}", cond, note)
        fs = I.fs()
        Tdf = I.mod("basictdf").Tdf
        tb = I.mod("tdfBlock")
        n = int(src_kind[3])
        live = tuple(t for t, _ in C.POOL[: int(src_kind[4])])
        smodel, sspec = C.make_prestate(I, fs, "s.tdf", n, live, tag="src")
        spre = fs.obs("s.tdf")
        src = Tdf(fs.path("s.tdf"))
        excs = []
        with src.allow_write() as s_:
            cp = s_.copy(fs.path("d.tdf"))
            unchanged(I, P, fs, spre, smodel, None, None, n, "c", ".copy_identical_to_source", name="d.tdf")
            newty = C.POOL[len(live)][0]
            blk, _ = C.opaque_block(I, newty, "m0", budget=[sspec["total"]])
            try:
                if how == "direct_add":
                    cp.add_block(blk)
                elif how == "direct_remove":
                    cp.remove_block(tb.BlockType(live[0]))
                else:
                    with cp.allow_write() as c_:
                        c_.add_block(blk)
                exc = None
            except Exception as e:  # noqa: BLE001
                exc = e
            I.observe("exc", type(exc).__name__ if exc else None)
            unchanged(I, P, fs, spre, smodel, None, None, n, "o", ".source_after_using_the_copy", name="s.tdf")
        unchanged(I, P, fs, spre, smodel, None, None, n, "o2", ".source_after_using_the_copy.closed", name="s.tdf")
        I.goal("done")
    return h


def sibling_case(op, sib_kind, target="session", sibling="session.tdf"):
    """The target is absent; a file with a related name exists next to it (<name>.tdf for an
    extension-less target, <stem>.tmp, <name>.bak ...).  Creating / copying to the target
    must leave every pre-existing file untouched."""
    def h(I):
        def P(label, cond, note=""):
            return I.prove(f"C17.{label}", cond, note)
        fs = I.fs()
        Tdf = I.mod("basictdf").Tdf
        tinfo = _target(I, fs, sib_kind, sibling)
        pre = fs.obs(sibling)
        smodel = None
        if op == "copy":
            smodel, sspec = C.make_prestate(I, fs, "src.tdf", 2, (16,), tag="src")
            spre = fs.obs("src.tdf")
        try:
            if op == "new":
                Tdf.new(fs.path(target))
            else:
                Tdf(fs.path("src.tdf")).copy(fs.path(target))
            exc = None
        except Exception as e:  # noqa: BLE001
            exc = e
        I.observe("exc", type(exc).__name__ if exc else None)
        # whatever the call did (create "session", or refuse): the sibling is untouched
        P("sibling_file_still_exists", fs.exists(sibling), sibling)
        if fs.exists(sibling):
            _same_as(I, P, fs, sibling, pre, tinfo, "sib", ".sibling_with_tdf_extension" if sibling.endswith(".tdf") else ".sibling_file")
        if op == "copy":
            unchanged(I, P, fs, spre, smodel, None, None, 2, "s", ".source_after_copy", name="src.tdf")
        I.goal("done")
    return h


def open_case(kind):
    def h(I):
        def P(label, cond, note=""):
            return I.prove(f"C17.{label}", cond, note)
        fs = I.fs()
        Tdf = I.mod("basictdf").Tdf
        if kind == "missing":
            try:
                Tdf(fs.path("nope.tdf"))
                exc = None
            except Exception as e:  # noqa: BLE001
                exc = e
            I.observe("exc", type(exc).__name__ if exc else None)
            P("opening_a_missing_path_is_refused", isinstance(exc, FileNotFoundError))
            P("missing_path_not_created", not fs.exists("nope.tdf"))
            I.goal("done")
            return
        if kind.startswith("replaced"):
            # the object is created while the path holds a TDF; the content is then replaced
            # by something that does not start with the signature; every later open through
            # that object must be refused
            model, spec = C.make_prestate(I, fs, "x.tdf", 2, (16,), tag="x")
            t = Tdf(fs.path("x.tdf"))
            with t:
                pass
            if kind == "replaced_sig":
                # the new content is a complete table and data area behind 16 bytes that are
                # not the signature
                sig = I.rawbytes("sig", 16)
                I.assume(I.not_(sig == SF.SIGNATURE))
                spec2 = dict(spec)
                spec2["signature"] = sig
                fs.create("x.tdf", spec2)
            else:
                k = int(kind[8:])
                raw = I.rawbytes("raw", k)
                if k >= 16:
                    I.assume(I.not_(raw[:16] == SF.SIGNATURE))
                fs.create_raw("x.tdf", raw)
            for how in ("with", "getter"):
                h0 = fs.open_handles()
                try:
                    if how == "with":
                        with t as tt:
                            got = len(tt.entries)
                    else:
                        got = t.has_events
                    exc = None
                except Exception as e:  # noqa: BLE001
                    exc = e
                I.observe(f"exc.{how}", type(exc).__name__ if exc else None)
                P("opens_only_with_the_TDF_signature", exc is not None, f"{how}: object created before the content was replaced")
                if how == "getter":
                    P("implicitly_opened_handle_closed_after_refusal", fs.open_handles() == h0)
            I.goal("refused")
            return
        if kind.startswith("short"):
            k = int(kind[5:])
            fs.create_raw("x.tdf", I.rawbytes("raw", k))
            sig_ok = False
        else:
            sig = I.rawbytes("sig", 16)
            model, spec = C.make_prestate(I, fs, "x.tdf", 2, (16,), tag="x")
            # overwrite the signature with arbitrary bytes
            spec2 = dict(spec)
            spec2["signature"] = sig
            fs.create("x.tdf", spec2)
            sig_ok = sig == SF.SIGNATURE
        pre = fs.obs("x.tdf")
        got = None
        try:
            with Tdf(fs.path("x.tdf")) as t:
                got = len(t.entries)
            exc = None
        except Exception as e:  # noqa: BLE001
            exc = e
        I.observe("exc", type(exc).__name__ if exc else None)
        if exc is None:
            I.goal("opened")
            P("opens_only_with_the_TDF_signature", sig_ok)
        else:
            I.goal("refused")
            P("valid_signature_is_accepted", I.not_(sig_ok), type(exc).__name__)
        obs = fs.obs("x.tdf")
        P("open_attempt_leaves_file_unchanged", obs.length == pre.length)
    return h


def instances(tier):
    q = tier == "quick"
    out = []
    tkinds = ["absent", "tdf10", "tdf21", "tdf22", "raw0", "raw5", "raw20"] + ([] if q else ["tdf11", "tdf20", "tdf30", "tdf31", "tdf32", "tdf33", "tdf43", "raw1", "raw15", "raw16", "raw17", "raw64", "raw300"])
    for k in tkinds:
        out.append(Instance(f"new.{k}", new_case(k), goals=["absent" if k == "absent" else "exists"]))
    skinds = ["tdf20", "tdf21", "tdf22"] + ([] if q else ["tdf10", "tdf11", "tdf30", "tdf31", "tdf32", "tdf33", "tdf42", "tdf63"])
    for s in skinds:
        for d in (["absent", "tdf21", "raw0", "raw5"] if q else tkinds):
            out.append(Instance(f"copy.{s}.to.{d}", copy_case(s, d, None), goals=["absent" if d == "absent" else "exists"]))
        for later in ("mutate_copy", "mutate_source"):
            out.append(Instance(f"copy.{s}.then.{later}", copy_case(s, "absent", later), goals=["absent"]))
    for shape in ("zero_tail", "zero_middle", "zero_tail_aligned"):
        out.append(Instance(f"copy.scale.{shape}", copy_scale_case(shape), goals=["done"]))
    for s in (["tdf21"] if q else ["tdf21", "tdf32"]):
        for how in ("direct_add", "direct_remove", "own_context"):
            out.append(Instance(f"copy.{s}.inside_write_context.{how}", copy_inside_context_case(s, how), goals=["done"]))
    for s in (["tdf21"] if q else ["tdf21", "tdf20", "tdf32"]):
        for later in ("mutate_copy", "mutate_source"):
            out.append(Instance(f"copy.{s}.via_symlink.then.{later}", copy_case(s, "absent", later, via_link=True), goals=["absent"]))
        for d in ("lnk:tdf21", "lnk:raw5"):
            out.append(Instance(f"copy.{s}.to.{d}", copy_case(s, d, None), goals=["exists"]))
    for k in ("lnk:tdf21", "lnk:raw0", "lnk:raw5"):
        out.append(Instance(f"new.{k}", new_case(k), goals=["exists"]))
    for op in ("new", "copy"):
        for sk in ("tdf21", "raw5", "raw0"):
            out.append(Instance(f"sibling.{op}.{sk}", sibling_case(op, sk), goals=["done"]))
        for target, sibling in (("session.tdf", "session.tmp"), ("backup", "backup.tmp"), ("session.tdf", "session.tdf.bak"), ("session.tdf", "session.tdf~")):
            out.append(Instance(f"sibling.{op}.{target}.next_to.{sibling}", sibling_case(op, "raw5" if op == "new" else "tdf21", target, sibling), goals=["done"]))
    for k in ["missing", "sig", "short0", "short5", "short15", "replaced0", "replaced16", "replaced40", "replaced_sig"]:
        out.append(Instance(f"open.{k}", open_case(k), goals=(["opened", "refused"] if k == "sig" else (["done"] if k == "missing" else ["refused"]))))
    return out
