"""End-to-end container legs with REAL blocks (no decoder recorders): closes the
compositional argument of C04/C10 (bytes preserved + dispatch/seek + decode∘encode = id)
on small symbolic blocks, and carries file-level equality for C14."""
from symtdf import symfile as SF

from . import blocks as B
from . import container as C

NAME = "f.tdf"


def real_block(I, kind, tag):
    if kind == "events":
        return B.build(I, "events", {"events": [(1, 2), (0, 1)], "lab": [1], "no_nan": True}, tag)
    if kind == "emg":
        return B.build(I, "emg", {"n": 2, "signals": 1, "lab": [1]}, tag)
    if kind == "optical":
        return B.build(I, "optical", {"channels": 1, "lab": [1]}, tag)
    raise ValueError(kind)


KIND_GETTER = {"events": "events", "emg": "emg"}


def same_content(I, kind, a, b):
    fa, fb = B.fields(I, kind, a, values=True), B.fields(I, kind, b, values=True)
    if [n for n, _ in fa] != [n for n, _ in fb]:
        return False
    return I.and_(*[B.eqv(I, x, y) for (_, x), (_, y) in zip(fa, fb)])


def c04_case(N, first_opaque, kinds, remove_first):
    """[opaque block of symbolic size] + real blocks added through the API; every real
    block is read back (while others are added / the first is removed, which moves the
    real blocks) and must equal what was stored."""
    def h(I):
        def P(label, cond, note=""):
            return I.prove(f"C04.e2e.{label}", cond, note)
        fs = I.fs()
        tb = I.mod("tdfBlock")
        Tdf = I.mod("basictdf").Tdf
        live = (14,) if first_opaque else ()
        model, spec = C.make_prestate(I, fs, NAME, N, live)
        I.assume(spec["total"] + 65536 <= C.MAXLEN)  # room for the real blocks below 2 GiB
        stored = []
        with Tdf(fs.path(NAME)).allow_write() as t:
            for j, kind in enumerate(kinds):
                blk = real_block(I, kind, f"r{j}")
                comment = I.label(f"cm{j}", 1)
                t.add_block(blk, comment)
                stored.append((kind, blk, comment))
                for kind2, blk2, _ in stored:
                    back = getattr(t, KIND_GETTER[kind2])
                    P("read_back_equals_stored", same_content(I, kind2, blk2, back), f"{kind2} after adding {kind}")
            if remove_first and first_opaque:
                t.remove_block(tb.BlockType(14))
                for kind2, blk2, _ in stored:
                    back = getattr(t, KIND_GETTER[kind2])
                    P("read_back_equals_stored_after_earlier_block_removed", same_content(I, kind2, blk2, back), kind2)
            mem = C.entries_of(t)
        # reopened, read-only, implicit contexts
        t2 = Tdf(fs.path(NAME))
        for kind2, blk2, cm in stored:
            back = getattr(t2, KIND_GETTER[kind2])
            P("read_back_after_reopen_equals_stored", same_content(I, kind2, blk2, back), kind2)
        Pm = fs.obs(NAME).parse()
        livee = [e for e in Pm["entries"] if e["type"] != 0]
        want = ([] if (remove_first or not first_opaque) else [m["comment"] for m in model]) + [cm for _, _, cm in stored]
        P("comments_kept", len(livee) == len(want) and I.truth(I.and_(*[C.text_eq(I, e["comment"], w) for e, w in zip(livee, want)])) if len(livee) == len(want) else False)
        P("no_handle_left_open", fs.open_handles() == 0)
        I.observe("table", [[e["type"], e["offset"], e["size"]] for e in Pm["entries"]])
        I.goal("done")
    return h


def c14_file_case(variant):
    """Two files built from real blocks; Tdf == Tdf iff version, slot count and block
    lists are equal."""
    def h(I):
        def P(label, cond, note=""):
            return I.prove(f"C14.file.{label}", cond, note)
        fs = I.fs()
        Tdf = I.mod("basictdf").Tdf
        from . import c14 as C14

        def mkfile(name, n, blocks, version=1):
            spec = {"n": n, "version": version, "hdates": [0, 0, 0], "slots": [{"type": 0, "format": 0, "size": 0, "dates": [0, 0, 0], "comment": "x"} for _ in range(n)]}
            fs.create(name, spec)
            with Tdf(fs.path(name)).allow_write() as t:
                for b in blocks:
                    t.add_block(b)

        a_blocks = [real_block(I, "events", "a"), real_block(I, "emg", "e")]
        C14._header_non_nan(I, "events", a_blocks[0])
        C14._header_non_nan(I, "emg", a_blocks[1])
        mkfile("a.tdf", 3, a_blocks)
        expect_equal = True
        if variant == "same":
            mkfile("b.tdf", 3, [real_block(I, "events", "a"), real_block(I, "emg", "e")])
        elif variant == "slot_count":
            mkfile("b.tdf", 4, [real_block(I, "events", "a"), real_block(I, "emg", "e")])
            expect_equal = False
        elif variant == "version":
            mkfile("b.tdf", 3, [real_block(I, "events", "a"), real_block(I, "emg", "e")], version=2)
            expect_equal = False
        elif variant == "fewer_blocks":
            mkfile("b.tdf", 3, [real_block(I, "events", "a")])
            expect_equal = False
        elif variant == "value":
            ov, _ = C14._mutate(I, ("value", "farr", "a.e0", ((2,), 32, 1)))
            mkfile("b.tdf", 3, [B.build(I, "events", {"events": [(1, 2), (0, 1)], "lab": [1], "no_nan": True}, "a", ov=ov), real_block(I, "emg", "e")])
            expect_equal = False
        elif variant == "label":
            ov, _ = C14._mutate(I, ("label", "label", "e.label0", 1))
            mkfile("b.tdf", 3, [real_block(I, "events", "a"), B.build(I, "emg", {"n": 2, "signals": 1, "lab": [1]}, "e", ov=ov)])
            expect_equal = False
        elif variant == "order":
            mkfile("b.tdf", 3, [real_block(I, "emg", "e"), real_block(I, "events", "a")])
            expect_equal = False
        try:
            with Tdf(fs.path("a.tdf")) as x, Tdf(fs.path("b.tdf")) as y:
                r = x == y
                r2 = y == x
            exc = None
        except Exception as e:  # noqa: BLE001
            r, r2, exc = None, None, e
        I.observe("eq", [r if exc is None else type(exc).__name__])
        if expect_equal:
            P("equal_files_compare_equal", exc is None and I.and_(r, r2), f"{type(exc).__name__ if exc else ''}: {exc}" if exc else "")
        else:
            P(f"files_differing_in_{variant}_compare_unequal", exc is None and I.and_(I.not_(r), I.not_(r2)), f"{type(exc).__name__ if exc else ''}: {exc}" if exc else "")
        P("no_handle_left_open", fs.open_handles() == 0)
        I.goal("done")
    return h
