"""C12 - reserved, padding and after-terminator bytes never influence what is read.

A conformant buffer (reference encoder, symbolic care bytes) gets its don't-care positions
- as reported by the independent reference decoder - instantiated twice with independent
symbolic bytes; the real decoder must return equal fields for both (and raise for neither),
and re-encoding must give the canonical bytes of the original size.
"""
from symtdf import symfile as SF
from symtdf.runner import Instance
from symtdf.sbytes import items_of, mkbytes

from . import blocks as B
from . import codec
from . import container as C
from . import layout as L

PROPERTY = "C12"
META = {
    "explanation": "the real decoders are executed symbolically on two copies of a layout-conformant buffer that differ only in the don't-care positions (reserved words, padding words, string tails after the first NUL, the 256-byte platform-calibration pad), each filled with independent symbolic bytes; z3 proves equal decoded fields and canonical re-encoding; same for file header and jump-table entries through the real Tdf.__enter__",
    "bounds": {"quick": {"blocks": "all nine types, 1-2 items, label lengths 0/2/3/31 (32-byte) and 0/2/255 (256-byte fields)", "header_entries": "N=2 table, reserved words, pad words and comment tails symbolic"},
               "thorough": {"blocks": "C01 thorough shapes", "header_entries": "N in {1,2,3}"}},
    "outside_bounds": ["the capture's own payloads (its don't-care bytes are covered by shape: same positions as the bounded buffers)", "larger shapes"],
    "assumptions": ["don't-care positions are those of the reference layout (DESIGN Appendix A)"],
}


def scramble(I, data, dc, tag):
    items = list(items_of(data))
    sym = list(items_of(I.rawbytes(tag, len(dc)))) if dc else []
    for p, s in zip(dc, sym):
        items[p] = s
    return mkbytes(items)


def block_case(kind, sh):
    def h(I):
        def P(label, cond, note=""):
            return I.prove(f"C12.{kind}.{label}", cond, note)
        blk = B.build(I, kind, sh)
        fl = B.fields(I, kind, blk)
        canon = L.ref_encode(I, kind, fl)
        fmt = blk.format.value
        rfields, consumed, dc = L.ref_decode(I, kind, canon, fmt)
        I.observe("ndc", len(dc))
        if dc:
            I.goal("has_dont_care_bytes")
        b1 = scramble(I, canon, dc, "d1")
        b2 = scramble(I, canon, dc, "d2")
        res = []
        for tag, buf in (("1", b1), ("2", b2)):
            try:
                d, pos = B.decode(I, kind, buf, fmt, codec.SENTINEL)
                res.append((d, pos, None))
            except Exception as e:  # noqa: BLE001
                res.append((None, None, e))
        I.observe("excs", [type(r[2]).__name__ if r[2] else None for r in res])
        P("decoding_never_raises_because_of_undefined_bytes", res[0][2] is None and res[1][2] is None,
          "; ".join(f"{type(r[2]).__name__}: {r[2]}" for r in res if r[2]))
        if res[0][2] is not None or res[1][2] is not None:
            return
        f1, f2 = B.fields(I, kind, res[0][0]), B.fields(I, kind, res[1][0])
        B.observe_fields(I, "dec1", f1)
        P("same_bytes_consumed", res[0][1] == res[1][1] and res[0][1] == consumed)
        ok = [n for n, _ in f1] == [n for n, _ in f2] == [n for n, _ in rfields]
        P("same_field_list", ok)
        if ok:
            import re
            groups = {}
            for (n, a), (_, b), (_, r) in zip(f1, f2, rfields):
                g = re.sub(r"\d+", "", n)
                groups.setdefault(g, []).append(I.and_(B.eqv(I, a, b), L.field_eq(I, r, a)))
            for g, conds in groups.items():
                P(f"content_independent_of_undefined_bytes.{g}", I.and_(*conds))
        for tag, (d, _, _) in zip("12", res):
            try:
                again = B.encode(I, d)
                exc = None
            except Exception as e:  # noqa: BLE001
                again, exc = None, e
            P("reencoding_is_canonical_and_of_original_size", exc is None and I.truth(I.and_(len(again) == len(canon), again == canon)) if exc is None else False,
              f"copy {tag} {type(exc).__name__ if exc else ''}")
        I.goal("done")
    return h


def table_case(N, live):
    """File header and jump-table entries: reserved words, pad words, comment tails."""
    def h(I):
        def P(label, cond, note=""):
            return I.prove(f"C12.table.{label}", cond, note)
        fs = I.fs()
        Tdf = I.mod("basictdf").Tdf
        model, spec = C.make_prestate(I, fs, "a.tdf", N, live, tag="p", comment_len=2)
        # second file: same care bytes, independent don't-care bytes
        spec2 = dict(spec)
        spec2["r1"] = I.rawbytes("q.r1", 8)
        spec2["r2"] = I.rawbytes("q.r2", 20)
        slots2 = []
        for j, s in enumerate(spec["slots"]):
            s1 = dict(s)
            s2 = dict(s)
            clen = len(s["comment"])
            s1["tail"] = I.rawbytes(f"p.tail{j}", 255 - clen)
            s2["tail"] = I.rawbytes(f"q.tail{j}", 255 - clen)
            s1["pad"] = I.rawbytes(f"p.pad{j}", 4)
            s2["pad"] = I.rawbytes(f"q.pad{j}", 4)
            spec["slots"][j] = s1
            slots2.append(s2)
        spec2["slots"] = slots2
        fs.create("a.tdf", spec)
        fs.create("b.tdf", spec2)
        out = []
        for name in ("a.tdf", "b.tdf"):
            try:
                with Tdf(fs.path(name)) as t:
                    out.append((C.entries_of(t), [C._secs(t.creation_date), C._secs(t.last_modification_date), C._secs(t.last_access_date)], t.version, t.nEntries, None))
            except Exception as e:  # noqa: BLE001
                out.append((None, None, None, None, e))
        P("open_never_raises_because_of_undefined_bytes", out[0][4] is None and out[1][4] is None, "; ".join(f"{type(o[4]).__name__}: {o[4]}" for o in out if o[4]))
        if out[0][4] is not None or out[1][4] is not None:
            return
        (e1, d1, v1, n1, _), (e2, d2, v2, n2, _) = out
        I.observe("entries", [[e["type"], e["offset"], e["size"], e["comment"]] for e in e1])
        P("header_fields_independent_of_reserved_words", I.and_(v1 == v2, n1 == n2, *[a == b for a, b in zip(d1, d2)]))
        P("entries_independent_of_pad_and_comment_tail", len(e1) == len(e2) and I.truth(I.and_(*[C.entry_eq(I, a, b) for a, b in zip(e1, e2)])) if len(e1) == len(e2) else False)
        # what was read is what the reference model says (comments cut at the first NUL)
        live_e = [e for e in e1 if e["type"] != 0]
        P("comments_cut_at_first_NUL", I.and_(*[C.text_eq(I, e["comment"], m["comment"]) for e, m in zip(live_e, model)]) if model else True)
        # a mutation rewrites entries canonically: pad word zero, tail zero
        if len(live) < N:
            tb = I.mod("tdfBlock")
            from .cstep import apply_op
            with Tdf(fs.path("a.tdf")).allow_write() as t:
                exc, new, comment = apply_op(I, t, tb, ("add", C.POOL[len(live)][0], "given"), model, "m", [spec["total"]])
            P("mutation_after_scrambled_table_accepted", exc is None, f"{type(exc).__name__ if exc else ''}")
            if exc is None:
                Pm = fs.obs("a.tdf").parse()
                ne = Pm["entries"][len(live)]
                P("rewritten_entry_has_zero_pad_and_tail", I.and_(ne["pad"] == b"\x00" * 4, ne["raw"][32 + 2 + 1:] == b"\x00" * (256 - 3)))
        I.goal("done")
    return h


def shapes(tier):
    q = tier == "quick"
    out = [
        ("data3d", {"n": 2, "tracks": 1, "fmt": 1, "links": 1, "lab": [2]}),
        ("data3d", {"n": 1, "tracks": 2, "fmt": 2, "lab": [0, 40 if q else 255]}),
        ("data3d", {"n": 1, "tracks": 1, "fmt": 1, "links": 0, "lab": [2]}),  # link table present but empty
        ("emg", {"n": 2, "signals": 2, "lab": [2, 0]}),
        ("force3d", {"n": 2, "tracks": 1, "lab": [3]}),
        ("fpdata", {"n": 2, "plats": 2}),
        ("fpcal", {"plats": 1, "lab": [2]}),
        ("fpcal", {"plats": 2, "lab": [0, 40 if q else 255]}),
        ("data2d", {"cells": [[1, None], [2, 1]]}),
        ("calib", {"fmt": 1, "cams": 1, "model": 3}),
        ("calib", {"fmt": 2, "cams": 1, "model": 1}),
        ("optical", {"channels": 2, "lab": [0, 30]}),
        ("optical", {"channels": 1, "lab": [2]}),
        ("events", {"events": [(0, 1), (1, 2)], "lab": [2, 0]}),
        ("events", {"events": [(1, 1)], "lab": [60 if q else 254]}),
    ]
    if not q:
        def _masks(k, s_):
            return s_.get("n", 1) * max(1, s_.get("tracks", s_.get("signals", s_.get("plats", 1)))) if k in ("data3d", "emg", "force3d") else 0
        # every gap mask is a path and C12 decodes three times per path: shapes with more than
        # 2^9 masks are left to C01/C05
        out += [(k, s) for k, s in codec.shapes("thorough", "C01")
                if k in ("fpcal", "optical", "events", "data3d", "emg", "force3d") and _masks(k, s) <= 9 and not s.get("edit") and not s.get("crop") and not s.get("given")]
    return out


def instances(tier):
    out = []
    for kind, sh in shapes(tier):
        n = sh.get("n", 1)
        cnt = max(1, sh.get("tracks", sh.get("signals", sh.get("plats", 1))))
        curated = (kind, sh) in [(k, s_) for k, s_ in shapes("quick")]
        goals = ["done"] + (["has_dont_care_bytes"] if (curated and kind not in ("data2d", "calib")) else [])
        out.append(Instance(codec._name(kind, sh), block_case(kind, sh), goals=goals,
                            cost=(2 ** (n * cnt)) if kind in ("data3d", "emg", "force3d", "fpdata") else 1))
    for N, live in ([(2, ()), (2, (16,)), (2, (16, 11))] + ([] if tier == "quick" else [(1, (16,)), (3, (16, 11)), (3, (5, 11, 16))])):
        out.append(Instance(f"table.N{N}.live{'-'.join(map(str, live)) or 'none'}", table_case(N, live), goals=["done"], cost=5))
    return out
