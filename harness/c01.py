"""C01 - encoding a block and decoding it gives back the same block."""
from . import codec

PROPERTY = "C01"
META = {
    "explanation": "symbolic execution of every real _write/_build pair: all sample bits, label characters, header "
                   "integers/floats are solver variables; gap masks are solver-enumerated paths",
    "bounds": {
        "quick": {"items_per_block": "0-2", "frames": "1-3 (all 2^n masks)", "labels": "lengths 0,2,3,40 and one 255 (events)",
                  "data2d": "up to 2x2 cells, <=2 points", "cameras": "0-2 (Seelab1, BTS with 70 coefficients)", "events": "0-3 events, 0-2 values"},
        "thorough": {"items_per_block": "0-4", "frames": "1-6, 8, 10 (three items: 2-3 frames) (C05: every n from 1 to 10 for one track, 1-5 for two, 2-3 for three)", "labels": "0,1,31,127,254,255 (256-byte fields), every length 0..30 (32-byte fields)",
                     "data2d": "up to 3x2 / 2x3 cells, <=3 points", "cameras": "0-3", "events": "0-3 events, 0-3 values"},
    },
    "outside_bounds": ["larger shapes", "+-inf in the gap-deciding component (the library treats it as a gap: outside 'valid')",
                       "BTS camera records with fewer than 70 coefficients", "Data2D cells with zero points (decode to None)",
                       "byFrame formats (not implemented by the library)"],
    "assumptions": ["symnp model of numpy 1.26.4 (validated per run by witness replay on the real build)",
                    "Data2D camera map set through the private attribute, as the repository's own test does",
                    "datetime.now() arbitrary"],
}


def instances(tier):
    return codec.instances_for("C01", tier)
