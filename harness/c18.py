"""C18 - lookup by index, by label, membership, iteration and length are coherent.

Real functions: __getitem__/__contains__/__iter__/__len__ of Data3D, ForceTorque3D, EMG,
TemporalEventsData.  Symbolic: every label character (duplicates, empty labels, case /
blank variants are all reachable), the string key's characters, the integer key.
"""
from symtdf.runner import Instance
from . import simple as S

PROPERTY = "C18"
META = {
    "explanation": "symbolic execution of the real container dunder methods; label/key characters and the integer key are solver variables; integer keys are enumerated exhaustively through the solver inside the stated window",
    "bounds": {"quick": {"items": "0-3", "label_lengths": "0-2", "int_key": "every int in [-n-2, n+2] plus +-2^31, +-2^63, +-2^64", "str_key_length": "0-2"},
               "thorough": {"items": "0-6", "label_lengths": "0-4", "int_key": "every int in [-n-6, n+6] plus large magnitudes", "str_key_length": "0-4"}},
    "outside_bounds": ["more items / longer labels", "integer keys between the window and the listed large magnitudes (CPython list indexing is uniform there)"],
    "assumptions": ["CPython list semantics for __index__-based indexing"],
}

CLASSES = ["data3d", "force3d", "emg", "events"]


def _mk(I, cls, lens, kind="any", nvals=1, chans=False):
    blk = S.new_block(I, cls)
    labs, items = [], []
    chs = []
    for j, L in enumerate(lens):
        lab = I.chars(f"lab{j}", L, kind=kind)
        # events: alternate between events without values (falsy objects) and with values
        it = S.new_item(I, cls, lab, fill=float(j + 1), nvals=(nvals if j % 2 == 0 else 1))
        ch = None
        if cls == "emg" and chans:
            # explicit acquisition channels in arbitrary (not necessarily ascending) order
            ch = I.ibv(f"ch{j}", "i16")
            for prev in chs:
                I.assume(I.not_(prev == ch))
            chs.append(ch)
        S.add_item(cls, blk, it, ch)
        labs.append(lab)
        items.append(it)
    return blk, labs, items


def _snapshot(cls, blk):
    return [id(x) for x in S.items_of(cls, blk)]


def _basic(I, cls, blk, items):
    it = list(iter(blk))
    I.prove(f"C18.{cls}.len_eq_iter_count", len(blk) == len(it) and len(it) == len(items))
    I.prove(f"C18.{cls}.iter_yields_items_in_order", all(a is b for a, b in zip(it, items)))
    # two iterations of the same block that overlap in time are independent of each other
    pairs = [(x, y) for x in blk for y in blk]
    I.prove(f"C18.{cls}.len_eq_iter_count", len(pairs) == len(items) ** 2, f"nested iteration visits {len(pairs)} pairs for {len(items)} items")
    i1, i2 = iter(blk), iter(blk)
    alt = []
    for _ in range(len(items)):
        alt.append((next(i1, None), next(i2, None)))
    I.prove(f"C18.{cls}.iter_yields_items_in_order", all(x is it_ and y is it_ for (x, y), it_ in zip(alt, items)), "two iterators advanced alternately")


def int_case(cls, lens, window, chans=False):
    def h(I):
        blk, labs, items = _mk(I, cls, lens, chans=chans)
        n = len(items)
        before = _snapshot(cls, blk)
        _basic(I, cls, blk, items)
        key = I.int("key", -n - window, n + window)
        try:
            r = blk[key]
            exc = None
        except Exception as e:  # noqa: BLE001
            r, exc = None, e
        kv = key.__index__() if hasattr(key, "__index__") else int(key)
        I.observe("key", kv)
        I.observe("exc", type(exc).__name__ if exc else None)
        if -n <= kv < n:
            I.goal("in_range")
            I.prove(f"C18.{cls}.index_returns_ith_item", exc is None and r is items[kv])
        else:
            I.goal("out_of_range")
            I.prove(f"C18.{cls}.out_of_range_raises_IndexError", isinstance(exc, IndexError))
        I.prove(f"C18.{cls}.int_lookup_does_not_mutate", _snapshot(cls, blk) == before)
    return h


def bigint_case(cls, lens, value):
    def h(I):
        blk, labs, items = _mk(I, cls, lens)
        try:
            blk[value]
            exc = None
        except Exception as e:  # noqa: BLE001
            exc = e
        I.observe("exc", type(exc).__name__ if exc else None)
        I.goal("out_of_range")
        I.prove(f"C18.{cls}.out_of_range_raises_IndexError", isinstance(exc, IndexError))
    return h


def str_case(cls, lens, klen, nvals=1):
    def h(I):
        blk, labs, items = _mk(I, cls, lens, nvals=nvals)
        before = _snapshot(cls, blk)
        key = I.chars("key", klen, kind="any")
        try:
            r = blk[key]
            exc = None
        except Exception as e:  # noqa: BLE001
            r, exc = None, e
        try:
            c = key in blk
            cexc = None
        except Exception as e:  # noqa: BLE001
            c, cexc = None, e
        # oracle: first item whose label equals the key (decisions are looked up / forked)
        first = None
        for j, lab in enumerate(labs):
            if I.truth(lab == key):
                first = j
                break
        I.observe("first", first)
        I.observe("exc", type(exc).__name__ if exc else None)
        if first is None:
            I.goal("absent")
            I.prove(f"C18.{cls}.absent_label_raises_KeyError", isinstance(exc, KeyError))
            I.prove(f"C18.{cls}.absent_label_not_contained", cexc is None and I.truth(c) is False)
        else:
            I.goal("present")
            I.prove(f"C18.{cls}.label_returns_first_match", exc is None and r is items[first])
            I.prove(f"C18.{cls}.present_label_contained", cexc is None and I.truth(c) is True)
        I.prove(f"C18.{cls}.str_lookup_does_not_mutate", _snapshot(cls, blk) == before)
    return h


def edited_case(cls, lens, klen, edit):
    """Lookups, then an edit that keeps the item count (rename one item through its public
    label attribute / reverse the public item list in place), then the same lookups again:
    the answers must follow the block's current content (no stale lookup tables)."""
    def h(I):
        blk, labs, items = _mk(I, cls, lens)
        key = I.chars("key", klen, kind="any")

        def sweep(sfx):
            cur = list(iter(blk))
            I.prove(f"C18.{cls}.len_eq_iter_count{sfx}", len(blk) == len(cur))
            curlabs = [x.label for x in cur]
            for j in range(len(cur)):
                try:
                    r = blk[j]
                    exc = None
                except Exception as e:  # noqa: BLE001
                    r, exc = None, e
                I.prove(f"C18.{cls}.index_returns_ith_item{sfx}", exc is None and r is cur[j])
            for kname, k in [("key", key)] + [(f"lab{j}", l) for j, l in enumerate(curlabs)]:
                try:
                    r = blk[k]
                    exc = None
                except Exception as e:  # noqa: BLE001
                    r, exc = None, e
                try:
                    c = k in blk
                    cexc = None
                except Exception as e:  # noqa: BLE001
                    c, cexc = None, e
                first = None
                for j, lab in enumerate(curlabs):
                    if I.truth(lab == k):
                        first = j
                        break
                I.observe(f"first{sfx}.{kname}", first)
                if first is None:
                    I.prove(f"C18.{cls}.absent_label_raises_KeyError{sfx}", isinstance(exc, KeyError), kname)
                    I.prove(f"C18.{cls}.absent_label_not_contained{sfx}", cexc is None and I.truth(c) is False, kname)
                else:
                    I.prove(f"C18.{cls}.label_returns_first_match{sfx}", exc is None and r is cur[first], kname)
                    I.prove(f"C18.{cls}.present_label_contained{sfx}", cexc is None and I.truth(c) is True, kname)

        sweep("")
        if edit == "rename":
            items[0].label = I.chars("newlab", 1, kind="any")
        elif edit == "rename_last":
            items[-1].label = I.chars("newlab", 1, kind="any")
        else:
            lst = blk.events if cls == "events" else blk.tracks
            lst.reverse()
        I.goal("edited")
        sweep(".after_edit")
    return h


def other_case(cls, lens):
    def h(I):
        blk, labs, items = _mk(I, cls, lens, kind="valid")
        before = _snapshot(cls, blk)
        _basic(I, cls, blk, items)
        for name, key in (("None", None), ("float", 1.5), ("bytes", b"a"), ("list", [0]), ("tuple", (0,))):
            try:
                blk[key]
                exc = None
            except Exception as e:  # noqa: BLE001
                exc = e
            I.prove(f"C18.{cls}.unsupported_key_type_raises_TypeError.getitem", isinstance(exc, TypeError), name)
            try:
                key in blk  # noqa: B015
                exc = None
            except Exception as e:  # noqa: BLE001
                exc = e
            I.prove(f"C18.{cls}.unsupported_key_type_raises_TypeError.contains", isinstance(exc, TypeError), name)
        for j, it in enumerate(items):
            try:
                c = it in blk
                exc = None
            except Exception as e:  # noqa: BLE001
                c, exc = None, e
            I.prove(f"C18.{cls}.member_item_contained", exc is None and I.truth(c) is True)
        I.prove(f"C18.{cls}.lookups_do_not_mutate", _snapshot(cls, blk) == before)
        I.goal("done")
    return h


def instances(tier):
    q = tier == "quick"
    out = []
    patterns = [(), (1,), (0,), (1, 1), (0, 2), (1, 1, 1), (2, 0, 1)] if q else \
        [(), (1,), (0,), (2,), (3,), (4,), (1, 1), (0, 2), (2, 2), (3, 3), (0, 0), (1, 1, 1), (2, 0, 1), (2, 2, 2), (0, 0, 0), (1, 2, 1),
         (1, 1, 1, 1), (0, 1, 2, 3), (2, 1, 2, 1), (1, 1, 1, 1, 1), (0, 1, 0, 1, 2), (2, 2, 1, 1, 2), (1, 1, 1, 1, 1, 1)]
    window = 2 if q else 6
    for cls in CLASSES:
        for lens in patterns:
            nm = "".join(str(x) for x in lens) or "empty"
            n = len(lens)
            out.append(Instance(f"{cls}.int.{nm}", int_case(cls, lens, window), goals=(["in_range"] if n else []) + ["out_of_range"]))
            if cls == "emg" and n >= 2:
                out.append(Instance(f"{cls}.int.{nm}.channels", int_case(cls, lens, window, chans=True), goals=["in_range", "out_of_range"], cost=2 ** n))
            for kl in ([0, 1, 2] if q else [0, 1, 2, 3, 4]):
                goals = [] if (kl == 0 and 0 in lens) else ["absent"]
                if kl in lens:
                    goals.append("present")
                out.append(Instance(f"{cls}.str.{nm}.k{kl}", str_case(cls, lens, kl), goals=goals, cost=2 ** n))
                if cls == "events" and n:
                    out.append(Instance(f"{cls}.str.{nm}.k{kl}.novalues", str_case(cls, lens, kl, nvals=0), goals=goals, cost=2 ** n))
            out.append(Instance(f"{cls}.other.{nm}", other_case(cls, lens), goals=["done"]))
            if 2 <= n <= (2 if q else 3):
                for edit in ["rename", "rename_last"] + (["reverse"] if cls != "emg" else []):
                    out.append(Instance(f"{cls}.edited.{nm}.{edit}", edited_case(cls, lens, 1, edit), goals=["edited"], cost=2 ** (n + 1)))
        for v in (2**31, -2**31, 2**63, -2**63 - 1, 2**64, 10**30):
            out.append(Instance(f"{cls}.bigint.{v}", bigint_case(cls, (1, 1), v), goals=["out_of_range"]))
    return out
