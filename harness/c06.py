"""C06 - bytes on disk follow the fixed TDF layout (differential vs. an independent
layout-driven encoder/decoder, harness/layout.py)."""
import os

from symtdf import symfile as SF
from symtdf.runner import Instance

from . import blocks as B
from . import codec
from . import container as C
from . import layout as L

PROPERTY = "C06"
META = {
    "explanation": "differential check, both directions, between the real _write/_build code (symbolically executed) and an independent layout-driven reference encoder/decoder: byte-for-byte symbolic equality of encodings, field-for-field equality of decodings, every byte accounted; header/entry writers vs. the reference entry encoder; the BTS capture decoded by both",
    "bounds": {"quick": {"blocks": "shape vectors of C01 (quick)", "entries": "comment lengths 0,1,3; all numeric fields symbolic", "capture": "all 8 blocks decoded by the real code under the numpy model and by the reference decoder (concrete bytes); the optical-setup block additionally with its shape kept and every other byte symbolic"},
               "thorough": {"blocks": "shape vectors of C01 (thorough)", "entries": "comment lengths 0,1,3,255", "capture": "same"}},
    "outside_bounds": ["in-range signedness differences of counts (u32 vs i32 below 2^31) are indistinguishable by definition", "byFrame formats", "capture payloads are concrete (the symbolic legs use the bounded shapes)"],
    "assumptions": ["the reference layout (DESIGN Appendix A), anchored to the BTS capture on every run"],
}

CAPTURE = os.path.join(os.environ.get("BASICTDF_REPO", "/repo"), "tests", "test_files", "2838~aa~Walking 01.tdf")
KIND_OF_TYPE = {2: "calib", 4: "data2d", 5: "data3d", 6: "optical", 7: "fpcal", 9: "fpdata", 11: "emg", 12: "force3d", 16: "events"}


def block_case(kind, sh):
    def h(I):
        def P(label, cond, note=""):
            return I.prove(f"C06.{kind}.{label}", cond, note)
        blk = B.build(I, kind, sh)
        real = B.encode(I, blk)
        fl = B.fields(I, kind, blk)
        ref = L.ref_encode(I, kind, fl)
        I.observe("real", real)
        P("encoding_matches_reference_encoder", I.and_(len(real) == len(ref), real == ref), f"len real={len(real)} ref={len(ref)}")
        # decode direction on the reference encoder's output
        rfields, consumed, dc = L.ref_decode(I, kind, ref, blk.format.value)
        P("reference_decoder_accounts_for_every_byte", consumed == len(ref))
        try:
            dec, pos = B.decode(I, kind, ref, blk.format.value, codec.SENTINEL)
            exc = None
        except Exception as e:  # noqa: BLE001
            dec, exc = None, e
        P("conformant_bytes_decode", exc is None, f"{type(exc).__name__ if exc else ''}: {exc}" if exc else "")
        if exc is not None:
            return
        P("real_decoder_consumes_what_the_layout_accounts_for", pos == consumed)
        dfl = B.fields(I, kind, dec)
        B.observe_fields(I, "dec", dfl)
        names_ok = [n for n, _ in dfl] == [n for n, _ in rfields]
        P("same_fields_as_reference_decoder", names_ok, f"{[n for n, _ in dfl][:6]} vs {[n for n, _ in rfields][:6]}")
        if names_ok:
            import re
            groups = {}
            for (n, a), (_, b) in zip(rfields, dfl):
                groups.setdefault(re.sub(r"\d+", "", n), []).append(L.field_eq(I, a, b))
            for g, conds in groups.items():
                P(f"decoded_value_matches_reference.{g}", I.and_(*conds))
        # reserved / padding positions are zero in the real encoding
        zeros = [real[i:i + 1] == b"\x00" for i in dc] if len(real) == len(ref) else [False]
        P("reserved_fields_written_as_zero", I.and_(*zeros) if zeros else True)
        I.goal("done")
    return h


def entry_case(clen, typ):
    def h(I):
        def P(label, cond, note=""):
            return I.prove(f"C06.entry.{label}", cond, note)
        m = I.mod("basictdf")
        tb = I.mod("tdfBlock")
        fmt = I.int("fmt", 0, 2**32 - 1)
        off = I.int("off", -2**31, 2**31 - 1)
        size = I.int("size", -2**31, 2**31 - 1)
        dates = [I.date(f"d{k}", -2**31, 2**31 - 1) for k in range(3)]
        comment = I.label("comment", clen)
        e = m.TdfEntry(tb.BlockType(typ), fmt, off, size, dates[0], dates[1], dates[2], comment)
        f = I.BytesIO()
        try:
            e._write(f)
            wexc = None
        except Exception as ex:  # noqa: BLE001
            wexc = ex
        I.observe("write_exc", type(wexc).__name__ if wexc else None)
        P("entry_with_in_range_fields_encodes", wexc is None, f"{type(wexc).__name__}: {wexc}" if wexc else "")
        ref = SF.mkbytes(SF.encode_entry(typ, fmt, off, size, [C._secs(d) for d in dates], comment))
        if wexc is None:
            real = f.getvalue()
            I.observe("real", real)
            P("entry_encoding_matches_reference", I.and_(len(real) == 288, real == ref))
        # decode the reference bytes with the real reader
        try:
            e2 = m.TdfEntry._build(I.BytesIO(ref))
        except Exception as ex:  # noqa: BLE001
            P("layout_conformant_entry_decodes", False, f"{type(ex).__name__}: {ex}")
            I.goal("done")
            return
        P("entry_decoding_matches_reference", I.and_(e2.type.value == typ, e2.format == fmt, e2.offset == off, e2.size == size,
                                                     *[C._secs(a) == C._secs(b) for a, b in zip((e2.creation_date, e2.last_modification_date, e2.last_access_date), dates)],
                                                     C.text_eq(I, e2.comment, comment)))
        I.goal("done")
    return h


def new_file_case():
    def h(I):
        def P(label, cond, note=""):
            return I.prove(f"C06.header.{label}", cond, note)
        fs = I.fs()
        Tdf = I.mod("basictdf").Tdf
        Tdf.new(fs.path("n.tdf"))
        obs = fs.obs("n.tdf")
        Pm = obs.parse()
        # Tdf.new calls datetime.now() once; the file must be the reference encoding of that instant
        d = Pm["dates"][0]
        ref = SF.encode_header(1, 14, [d, d, d])
        for _ in range(14):
            ref += SF.encode_entry(0, 0, 4096, 0, [d, d, d], "Generated by basicTDF")
        refb = SF.mkbytes(ref)
        P("new_file_is_byte_identical_to_reference_encoding", I.and_(obs.length == 4096, obs.range(0, 4096) == refb))
        I.goal("done")
    return h


def capture_case(tier="quick"):
    """The BTS-recorded capture: every block decoded by the real code (under the numpy
    model, concrete bytes) and by the reference decoder."""
    def h(I):
        def P(label, cond, note=""):
            return I.prove(f"C06.capture.{label}", cond, note)
        with open(CAPTURE, "rb") as fh:
            raw = fh.read()
        st = type("S", (), {"load_range": lambda self, a, n: list(raw[a:a + n]), "length": len(raw)})()
        tab = SF.parse_table(st)
        P("capture_signature", tab["signature"] == SF.SIGNATURE)
        seen = []
        for e in tab["entries"]:
            if e["type"] == 0:
                continue
            kind = KIND_OF_TYPE.get(e["type"])
            P("capture_block_type_known", kind is not None, str(e["type"]))
            if kind is None:
                continue
            data = raw[e["offset"]:e["offset"] + e["size"]]
            if kind == "data2d" and tier == "quick":
                # 1 MB of 2D points: decoded by both decoders in the thorough tier only
                continue
            rfields, consumed, dc = L.ref_decode(I, kind, data, e["format"])
            P(f"{kind}.every_byte_accounted", consumed == e["size"], f"consumed={consumed} size={e['size']}")
            dec, pos = B.decode(I, kind, data, e["format"])
            P(f"{kind}.real_decoder_consumes_jump_table_size", pos == e["size"], f"pos={pos}")
            P(f"{kind}.nBytes_equals_jump_table_size", dec.nBytes == e["size"], f"nBytes={dec.nBytes}")
            dfl = B.fields(I, kind, dec)
            names_ok = [n for n, _ in dfl] == [n for n, _ in rfields]
            P(f"{kind}.same_fields_as_reference_decoder", names_ok)
            if names_ok:
                P(f"{kind}.decoded_values_match_reference", I.and_(*[L.field_eq(I, a, b) for (_, a), (_, b) in zip(rfields, dfl)]))
            seen.append(kind)
            I.observe(kind, [pos, dec.nBytes])
        I.goal("done")
    return h


def capture_shape_case(type_code):
    """A block of the BTS capture with its SHAPE kept (counts, enum codes, terminator
    positions) and every other byte symbolic: any file shaped like this capture block
    decodes identically under the real decoder and the reference decoder."""
    def h(I):
        kind = KIND_OF_TYPE[type_code]

        def P(label, cond, note=""):
            return I.prove(f"C06.capture_shape.{kind}.{label}", cond, note)
        with open(CAPTURE, "rb") as fh:
            raw = fh.read()
        st = type("S", (), {"load_range": lambda self, a, n: list(raw[a:a + n]), "length": len(raw)})()
        tab = SF.parse_table(st)
        e = next(x for x in tab["entries"] if x["type"] == type_code)
        data = raw[e["offset"]:e["offset"] + e["size"]]
        buf, consumed = L.symbolize(I, data, kind, e["format"])
        P("shape_accounts_for_the_whole_block", consumed == e["size"])
        rfields, rcons, dc = L.ref_decode(I, kind, buf, e["format"])
        try:
            dec, pos = B.decode(I, kind, buf, e["format"], codec.SENTINEL)
            exc = None
        except Exception as ex:  # noqa: BLE001
            dec, exc = None, ex
        I.observe("exc", type(exc).__name__ if exc else None)
        P("any_block_of_this_shape_decodes", exc is None, f"{type(exc).__name__ if exc else ''}: {exc}" if exc else "")
        if exc is not None:
            return
        P("real_decoder_consumes_what_the_layout_accounts_for", pos == rcons)
        dfl = B.fields(I, kind, dec)
        ok = [n for n, _ in dfl] == [n for n, _ in rfields]
        P("same_fields_as_reference_decoder", ok)
        if ok:
            import re
            groups = {}
            for (n, a), (_, b) in zip(rfields, dfl):
                groups.setdefault(re.sub(r"\d+", "", n), []).append(L.field_eq(I, a, b))
            for g, conds in groups.items():
                P(f"decoded_value_matches_reference.{g}", I.and_(*conds))
        P("declared_size_is_block_size", dec.nBytes == e["size"])
        I.observe("pos", pos)
        I.goal("done")
    return h


def instances(tier):
    out = []
    for tc in ((6,) if tier == "quick" else (6, 7, 2)):
        out.append(Instance(f"capture_shape.{KIND_OF_TYPE[tc]}", capture_shape_case(tc), goals=["done"], cost=500))
    for kind, sh in codec.shapes(tier, "C01"):
        n = sh.get("n", 1)
        cnt = max(1, sh.get("tracks", sh.get("signals", sh.get("plats", 1))))
        out.append(Instance(codec._name(kind, sh), block_case(kind, sh), goals=["done"],
                            cost=(2 ** (n * cnt)) if kind in ("data3d", "emg", "force3d", "fpdata") else 1))
    for clen in ([0, 1, 3] if tier == "quick" else [0, 1, 3, 255]):
        for typ in (0, 5, 16):
            out.append(Instance(f"entry.c{clen}.t{typ}", entry_case(clen, typ), goals=["done"], cost=clen + 1))
    out.append(Instance("header.new_file", new_file_case(), goals=["done"]))
    out.append(Instance("capture", capture_case(tier), goals=["done"], cost=1000, meta={"no_validate": False}))
    return out
