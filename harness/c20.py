"""C20 - separately created blocks share no state.

Real functions: every block constructor / decoder and the public mutators.
Symbolic: item contents (labels, samples, channels).  Enumerated: class, creation route
(default constructor, explicit list, decode of the same bytes twice), mutation of A.
"""
from symtdf.runner import Instance
from . import blocks as B
from . import simple as S

PROPERTY = "C20"
META = {
    "explanation": "object-graph property decided on symbolic executions of the real constructors/decoders/mutators: B's length, item identities and encoding are compared (solver-proved equal for all item contents) before and after A is mutated; modules are re-loaded per path so default-argument state cannot hide",
    "bounds": {"quick": {"instances_per_class": "A, B, and C created after the mutation", "mutations": "add 1-2 items, remove, in-place sample edit, bulk assign", "routes": "default ctor, explicit (distinct) lists, decode twice; through Tdf getters: the same block read twice, and what a getter hands out for an absent block (events, emg) read from two files"},
               "thorough": {"instances_per_class": "A, B, C", "mutations": "same plus two-step mutations on both A and C", "routes": "same"}},
    "outside_bounds": ["aliasing introduced by the caller (the same list / ndarray object passed to two constructors)", "more than three instances"],
    "assumptions": ["symnp view semantics (frombuffer results read-only, slices alias their base)"],
}


def _chan(I, tag):
    return I.mod("tdfOpticalSystem").OpticalChannelData(I.ibv(f"{tag}.idx", "i32"), I.label(f"{tag}.lens", 1), "t", "n", B._viewport(I, tag))


def _fpinfo(I, tag):
    return I.mod("tdfForcePlatformsCalibration").ForcePlatformInfo(I.label(f"{tag}.lab", 1), I.farray(f"{tag}.size", (2,)), I.farray(f"{tag}.pos", (4, 3)))


def _fpdata(I, tag, n=1):
    ap, fo, to = I.farray(f"{tag}.ap", (n, 2)), I.farray(f"{tag}.f", (n, 3)), I.farray(f"{tag}.t", (n,))
    B.assume_frames(I, n, [ap, fo, to.reshape(n, 1)])
    return I.mod("tdfForcePlatformsData").ForcePlatformData(ap, fo, to)


def _track(I, cls, tag, n=1):
    lab = I.label(f"{tag}.lab", 1)
    if cls == "data3d":
        d = I.farray(f"{tag}.d", (n, 3))
        B.assume_frames(I, n, [d])
        return I.mod("tdfData3D").MarkerTrack(lab, d)
    if cls == "force3d":
        a, f, t = I.farray(f"{tag}.a", (n, 3)), I.farray(f"{tag}.f", (n, 3)), I.farray(f"{tag}.t", (n, 3))
        B.assume_frames(I, n, [a, f, t])
        return I.mod("tdfForce3D").ForceTorqueTrack(lab, a, f, t)
    if cls == "emg":
        d = I.farray(f"{tag}.d", (n,))
        B.assume_no_nan(I, d)
        return I.mod("tdfEMG").EMGTrack(lab, d)
    if cls == "events":
        return I.mod("tdfEvents").Event(lab, I.farray(f"{tag}.v", (1,)), I.mod("tdfEvents").EventsDataType(1))
    raise ValueError(cls)


SPEC = {
    # cls: (kind for blocks.py, new(I), add(I, blk, tag), remove(blk) or None, items(blk))
    "optical": dict(kind="optical", new=lambda I: I.mod("tdfOpticalSystem").OpticalSetupBlock(),
                    add=lambda I, b, t: b.channels.append(_chan(I, t)), remove=lambda b: b.channels.pop(), items=lambda b: b.channels,
                    explicit=lambda I, t: I.mod("tdfOpticalSystem").OpticalSetupBlock(channels=[_chan(I, t)])),
    "events": dict(kind="events", new=lambda I: I.mod("tdfEvents").TemporalEventsData(),
                   add=lambda I, b, t: b.events.append(_track(I, "events", t)), remove=lambda b: b.events.pop(), items=lambda b: b.events),
    "emg": dict(kind="emg", new=lambda I: I.mod("tdfEMG").EMG(100, 1),
                add=lambda I, b, t: b.addSignal(_track(I, "emg", t)), remove=None, items=lambda b: b._signals),
    "data3d": dict(kind="data3d", new=lambda I: I.mod("tdfData3D").Data3D(100, 1, **S.eye(I)),
                   add=lambda I, b, t: b.add_track(_track(I, "data3d", t)), remove=None, items=lambda b: b.tracks,
                   assign=lambda I, b, t: setattr(b, "tracks", [_track(I, "data3d", t)])),
    "force3d": dict(kind="force3d", new=lambda I: I.mod("tdfForce3D").ForceTorque3D(100, 1, **S.eye(I)),
                    add=lambda I, b, t: b.add_track(_track(I, "force3d", t)), remove=None, items=lambda b: b.tracks,
                    assign=lambda I, b, t: setattr(b, "tracks", [_track(I, "force3d", t)])),
    "fpcal": dict(item=lambda I, t: _fpcal_item(I, t), kind="fpcal", new=lambda I: I.mod("tdfForcePlatformsCalibration").ForcePlatformsCalibrationDataBlock(),
                  add=lambda I, b, t: b.add_platform(_fpinfo(I, t)), remove=lambda b: b.remove_platform(0), items=lambda b: b._platforms,
                  explicit=lambda I, t: _fpcal_explicit(I, t)),
    "fpdata": dict(kind="fpdata", new=lambda I: I.mod("tdfForcePlatformsData").ForcePlatformsDataBlock(0.0, 100, 1),
                   add=lambda I, b, t: b.add_platform(_fpdata(I, t)), remove=None, items=lambda b: b.platforms,
                   assign=lambda I, b, t: setattr(b, "platforms", [_fpdata(I, t)]), list_attr="platforms", item=lambda I, t: _fpdata(I, t)),
}


def _fpcal_item(I, t):
    return I.mod("tdfForcePlatformsCalibration").ForcePlatformInfo(I.label(f"{t}.lab", 1), I.np.zeros((2,), dtype="<f4"), I.np.zeros((4, 3), dtype="<f4"))


def _cam(I, t):
    m = I.mod("tdfCalibrationData")
    return m.SeelabCameraData(rotation_matrix=I.farray(f"{t}.rot", (3, 3), 64), translation_vector=I.farray(f"{t}.tr", (3,), 64),
                              focus=I.farray(f"{t}.foc", (2,), 64), optical_center=I.farray(f"{t}.oc", (2,), 64),
                              radial_distortion=I.farray(f"{t}.rad", (2,), 64), decentering=I.farray(f"{t}.dec", (2,), 64),
                              thin_prism=I.farray(f"{t}.thin", (2,), 64), view_port=B._viewport(I, t))


def _calib_new(I):
    m = I.mod("tdfCalibrationData")
    np = I.np
    return m.CalibrationDataBlock(m.DistorsionModel(0), np.zeros(3, dtype="<f4"), np.zeros((3, 3), dtype="<f4"), np.zeros(3, dtype="<f4"),
                                  np.zeros((0,), dtype="<i2"), [])


def _calib_add(I, b, t):
    np = I.np
    b.cam_data.append(_cam(I, t))
    b.cameras_calibration_map = np.array(list(range(len(b.cam_data))), dtype="<i2")


SPEC_EXTRA = {
    "calib": dict(kind="calib", new=_calib_new, add=_calib_add, remove=None, items=lambda b: b.cam_data),
}


def _fpcal_explicit(I, t):
    b = I.mod("tdfForcePlatformsCalibration").ForcePlatformsCalibrationDataBlock()
    b.platforms = [(I.ibv(f"{t}.ch", "i16"), _fpinfo(I, t))]
    return b


def snap(I, spec, blk):
    items = list(spec["items"](blk))
    try:
        data = B.encode(I, blk)
    except Exception as e:  # noqa: BLE001
        data = type(e).__name__
    return (len(items), [id(x) for x in items], data)


def same(I, s1, s2):
    if s1[0] != s2[0] or s1[1] != s2[1]:
        return False
    if isinstance(s1[2], str) or isinstance(s2[2], str):
        return s1[2] == s2[2] if isinstance(s1[2], str) and isinstance(s2[2], str) else False
    return s1[2] == s2[2]


def fresh_case(cls, mutation):
    def h(I):
        I.fresh_modules()
        spec = SPEC[cls]
        a = spec["new"](I)
        b = spec["new"](I)
        b0 = snap(I, spec, b)
        empty_encoding = b0[2]
        I.prove(f"C20.{cls}.new_block_starts_empty", b0[0] == 0 and snap(I, spec, a)[0] == 0)
        if mutation == "add":
            spec["add"](I, a, "a0")
        elif mutation == "add2":
            spec["add"](I, a, "a0")
            spec["add"](I, a, "a1")
        elif mutation == "add_remove":
            spec["add"](I, a, "a0")
            spec["remove"](a)
        elif mutation == "assign":
            spec["assign"](I, a, "a0")
        elif mutation == "assign_shared":
            # one caller-owned list assigned to both blocks, then A is edited through its
            # public interface: the setter must have installed a private copy in each
            attr = spec.get("list_attr", "tracks")
            t0 = spec["item"](I, "sh0") if "item" in spec else _track(I, cls, "sh0")
            lst = [t0]
            setattr(a, attr, lst)
            setattr(b, attr, lst)
            b0 = snap(I, spec, b)
            spec["add"](I, a, "a1")
            I.prove(f"C20.{cls}.callers_list_not_captured", len(lst) == 1 and lst[0] is t0, mutation)
        elif mutation == "assign_from_other":
            attr = spec.get("list_attr", "tracks")
            spec["add"](I, a, "a0")
            setattr(b, attr, getattr(a, attr))
            b0 = snap(I, spec, b)
            spec["add"](I, a, "a1")
        b1 = snap(I, spec, b)
        I.observe("b", [b1[0], b1[2]])
        I.prove(f"C20.{cls}.other_instance_unchanged", same(I, b0, b1), mutation)
        c = spec["new"](I)
        c0 = snap(I, spec, c)
        I.observe("c", [c0[0], c0[2]])
        I.prove(f"C20.{cls}.later_instance_starts_empty", c0[0] == 0 and same(I, (0, [], empty_encoding), c0), mutation)
        # and the other direction: mutating the later instance leaves the first two alone
        a1 = snap(I, spec, a)
        spec["add"](I, c, "c0")
        I.prove(f"C20.{cls}.earlier_instances_unchanged", I.and_(same(I, a1, snap(I, spec, a)), same(I, b1, snap(I, spec, b))), mutation)
        I.goal("done")
    return h


def explicit_case(cls):
    def h(I):
        I.fresh_modules()
        spec = SPEC[cls]
        a = spec["explicit"](I, "xa")
        b = spec["explicit"](I, "xb")
        b0 = snap(I, spec, b)
        I.prove(f"C20.{cls}.explicit_list_installed", b0[0] == 1)
        spec["add"](I, a, "a0")
        I.prove(f"C20.{cls}.other_instance_unchanged", same(I, b0, snap(I, spec, b)), "explicit lists")
        c = spec["new"](I)
        I.prove(f"C20.{cls}.later_instance_starts_empty", snap(I, spec, c)[0] == 0, "after explicit-list instances")
        I.goal("done")
    return h


def _edit_nested(I, cls, blk):
    """Rebind an attribute of an object nested in the first item (viewport vectors, platform
    geometry, a track's whole data array): objects handed out by separate decodes must not
    be one shared object."""
    np = I.np
    if cls == "optical":
        blk.channels[0].camera_viewport.size = np.array([1024, 768], dtype="<i4")
    elif cls == "calib":
        blk.cam_data[0].view_port.size = np.array([1024, 768], dtype="<i4")
    elif cls == "fpcal":
        blk[0].size = np.array([9.0, 9.0], dtype="<f4")
    elif cls == "data3d":
        blk[0].data = np.full((1, 3), 7.0, dtype="<f4")
    elif cls == "force3d":
        blk[0].torque = np.full((1, 3), 7.0, dtype="<f4")
    elif cls == "emg":
        blk[0].data = np.full((1,), 7.0, dtype="<f4")
    elif cls == "events":
        blk[0].values = np.array([7.0], dtype="<f4")
    elif cls == "fpdata":
        blk.platforms[0].torque = np.full((1,), 7.0, dtype="<f4")


def _edit_in_place(I, cls, blk):
    """In-place edit of the first item's first sample / field, through public attributes."""
    np = I.np
    if cls == "data3d":
        blk[0].data[0, 0] = 5.0
    elif cls == "force3d":
        blk[0].force[0, 0] = 5.0
    elif cls == "emg":
        blk[0].data[0] = 5.0
    elif cls == "events":
        blk[0].values[0] = 5.0
    elif cls == "fpdata":
        blk.platforms[0].force[0, 0] = 5.0
    elif cls == "fpcal":
        blk[0].label = "edited"
    elif cls == "optical":
        blk.channels[0].lens_name = "edited"


def decode_case(cls, mutation):
    def h(I):
        I.fresh_modules()
        spec = ALL[cls]
        src = spec["new"](I)
        spec["add"](I, src, "s0")
        data = B.encode(I, src)
        fmt = src.format.value
        a, _ = B.decode(I, spec["kind"], data, fmt)
        b, _ = B.decode(I, spec["kind"], data, fmt)
        b0 = snap(I, spec, b)
        I.prove(f"C20.{cls}.decoded_twice_same_encoding", I.and_(b0[2] == data, snap(I, spec, a)[2] == data))
        try:
            if mutation == "add":
                spec["add"](I, a, "a1")
            elif mutation == "remove":
                spec["remove"](a)
            elif mutation == "edit":
                _edit_in_place(I, cls, a)
            elif mutation == "edit_nested":
                _edit_nested(I, cls, a)
            mexc = None
        except Exception as e:  # noqa: BLE001
            mexc = e
        I.observe("mutation_exc", type(mexc).__name__ if mexc else None)
        if mexc is None:
            a1 = snap(I, spec, a)
            if mutation != "remove" or True:
                I.prove(f"C20.{cls}.mutation_took_effect_on_A", I.not_(same(I, a1, (b0[0], b0[1], data))), mutation)
        b1 = snap(I, spec, b)
        I.observe("b", [b1[0], b1[2]])
        I.prove(f"C20.{cls}.decoded_sibling_unchanged", same(I, b0, b1), mutation)
        c, _ = B.decode(I, spec["kind"], data, fmt)
        I.prove(f"C20.{cls}.later_decode_unaffected", snap(I, spec, c)[2] == data, mutation)
        I.goal("done")
    return h


def cross_class_case(first, second):
    """Encoding a block of one class must not change what a separately created block of
    another class encodes (the same label text is used at the 256-byte width by one and at
    the 32-byte width by the other)."""
    TEXT = "1"

    def mk(I, kind):
        if kind == "optical":
            m = I.mod("tdfOpticalSystem")
            b = m.OpticalSetupBlock()
            b.channels.append(m.OpticalChannelData(1, TEXT, "", TEXT, I.mod("tdfTypes").CameraViewPort(I.np.array([0, 0], dtype="<i4"), I.np.array([640, 480], dtype="<i4"))))
            return b
        if kind == "events":
            m = I.mod("tdfEvents")
            b = m.TemporalEventsData()
            b.events.append(m.Event(TEXT, I.np.array([1.0], dtype="<f4"), m.EventsDataType(0)))
            b.events.append(m.Event("", I.np.array([], dtype="<f4"), m.EventsDataType(1)))
            return b
        m = I.mod("tdfForcePlatformsCalibration")
        b = m.ForcePlatformsCalibrationDataBlock()
        b.add_platform(m.ForcePlatformInfo(TEXT, I.np.zeros((2,), dtype="<f4"), I.np.zeros((4, 3), dtype="<f4")))
        return b

    def h(I):
        I.fresh_modules()
        alone = B.encode(I, mk(I, second))  # what the second block encodes to on its own
        I.fresh_modules()
        a = mk(I, first)
        ea = B.encode(I, a)
        b = mk(I, second)
        eb = B.encode(I, b)
        I.observe("enc", [len(ea), len(eb)])
        I.prove(f"C20.{second}.encoding_independent_of_other_instances", eb == alone, f"after a {first} block was encoded in the same process")
        I.prove(f"C20.{second}.encoding_independent_of_other_instances", len(eb) == b.nBytes, "size")
        I.goal("done")
    return h


def shared_item_case(cls):
    """The same item object is put into two blocks on different explicit channels: what the
    first block holds and encodes must not change when the second one takes the item."""
    def h(I):
        I.fresh_modules()
        spec = ALL[cls]
        a = spec["new"](I)
        b = spec["new"](I)
        item = spec["item"](I, "sh") if "item" in spec else None
        ch_a, ch_b = I.ibv("ch_a", "i16" if cls != "fpdata" else "u16"), I.ibv("ch_b", "i16" if cls != "fpdata" else "u16")
        I.assume(I.not_(ch_a == ch_b))
        if cls == "emg":
            item = I.mod("tdfEMG").EMGTrack(I.label("sh.lab", 1), I.np.zeros((1,), dtype="<f4"))
            a.addSignal(item, channel=ch_a)
        else:
            a.add_platform(item, channel=ch_a)
        a0 = snap(I, spec, a)
        if cls == "emg":
            b.addSignal(item, channel=ch_b)
        else:
            b.add_platform(item, channel=ch_b)
        a1 = snap(I, spec, a)
        I.observe("a", [a0[2], a1[2]])
        I.prove(f"C20.{cls}.other_instance_unchanged", same(I, a0, a1), "the same item object taken into a second block on another channel")
        I.goal("done")
    return h


def replicate_case(cls, earlier):
    """The same construction steps give the same block, whatever other instances did before
    (no hidden process-wide counters): block B is built exactly like block A - same items,
    automatic channels - after `earlier` other instances have been built and filled."""
    def h(I):
        I.fresh_modules()
        spec = ALL[cls]
        a = spec["new"](I)
        spec["add"](I, a, "r0")
        spec["add"](I, a, "r1")
        ea = B.encode(I, a)
        for k in range(earlier):
            o = spec["new"](I)
            spec["add"](I, o, f"o{k}")
        b = spec["new"](I)
        spec["add"](I, b, "r0")  # the same inputs by name: identical items
        spec["add"](I, b, "r1")
        eb = B.encode(I, b)
        I.observe("enc", [ea, eb])
        I.prove(f"C20.{cls}.same_steps_give_the_same_block", ea == eb, f"{earlier} other instance(s) in between")
        I.goal("done")
    return h


def populated_case(cls, mutation):
    """A and B each hold their own item; A is mutated; B must not notice."""
    def h(I):
        I.fresh_modules()
        spec = ALL[cls]
        a = spec["new"](I)
        b = spec["new"](I)
        spec["add"](I, a, "pa")
        spec["add"](I, b, "pb")
        b0 = snap(I, spec, b)
        I.prove(f"C20.{cls}.populated_block_holds_its_item", b0[0] == 1)
        try:
            if mutation == "add":
                spec["add"](I, a, "a1")
            elif mutation == "remove":
                spec["remove"](a)
            elif mutation == "edit":
                _edit_in_place(I, cls, a)
            elif mutation == "add_edit_remove":
                spec["add"](I, a, "a1")
                _edit_in_place(I, cls, a)
                if spec["remove"]:
                    spec["remove"](a)
            exc = None
        except Exception as e:  # noqa: BLE001
            exc = e
        I.observe("exc", type(exc).__name__ if exc else None)
        b1 = snap(I, spec, b)
        I.observe("b", [b1[0], b1[2]])
        I.prove(f"C20.{cls}.populated_sibling_unchanged", same(I, b0, b1), mutation)
        c = spec["new"](I)
        I.prove(f"C20.{cls}.later_instance_starts_empty", snap(I, spec, c)[0] == 0, mutation)
        I.goal("done")
    return h


def tdf_double_read_case(kind):
    """Reading the same block twice through one open Tdf yields two independent objects."""
    def h(I):
        I.fresh_modules()
        from . import e2e
        from . import container as C
        fs = I.fs()
        Tdf = I.mod("basictdf").Tdf
        blk = e2e.real_block(I, kind, "r")
        spec = {"n": 3, "version": 1, "hdates": [0, 0, 0], "slots": [{"type": 0, "format": 0, "size": 0, "dates": [0, 0, 0], "comment": "x"} for _ in range(3)]}
        fs.create("f.tdf", spec)
        with Tdf(fs.path("f.tdf")).allow_write() as t:
            t.add_block(blk)
        getter = e2e.KIND_GETTER[kind]
        with Tdf(fs.path("f.tdf")) as t:
            a = getattr(t, getter)
            b = getattr(t, getter)
            I.prove(f"C20.tdf.{kind}.two_reads_give_two_objects", a is not b)
            enc_b0 = B.encode(I, b)
            I.prove(f"C20.tdf.{kind}.both_reads_equal_what_was_stored", I.and_(enc_b0 == B.encode(I, blk), B.encode(I, a) == enc_b0))
            _edit_in_place(I, kind, a)
            if kind == "events":
                a.events.append(_track(I, "events", "x1"))
            else:
                a.addSignal(_track(I, "emg", "x1", n=2))
            I.prove(f"C20.tdf.{kind}.editing_one_read_leaves_the_other", B.encode(I, b) == enc_b0)
            c = getattr(t, getter)
            I.prove(f"C20.tdf.{kind}.a_later_read_returns_what_the_file_holds", B.encode(I, c) == enc_b0)
        I.goal("done")
    return h


def tdf_absent_read_case(kind):
    """Whatever a convenience getter hands out for a file that has no such block (today: an
    exception) is not shared between files or reads: editing it never shows up in a later read."""
    def h(I):
        I.fresh_modules()
        from . import e2e
        fs = I.fs()
        Tdf = I.mod("basictdf").Tdf
        for name in ("a.tdf", "b.tdf"):
            spec = {"n": 3, "version": 1, "hdates": [0, 0, 0], "slots": [{"type": 0, "format": 0, "size": 0, "dates": [0, 0, 0], "comment": "x"} for _ in range(3)]}
            fs.create(name, spec)
        getter = e2e.KIND_GETTER[kind]

        def read(name):
            try:
                return getattr(Tdf(fs.path(name)), getter), None
            except Exception as e:  # noqa: BLE001
                return None, e
        r1, e1 = read("a.tdf")
        I.observe("first", type(e1).__name__ if e1 else type(r1).__name__)
        if r1 is not None and not isinstance(r1, (bool, int, str)):
            enc1 = B.encode(I, r1)
            if kind == "events":
                r1.events.append(_track(I, "events", "x1"))
            else:
                r1.addSignal(_track(I, "emg", "x1", n=int(getattr(r1, "nSamples", 0) or 0)))
            for name in ("b.tdf", "a.tdf"):
                r2, e2 = read(name)
                I.prove(f"C20.tdf.{kind}.absent_block_reads_do_not_share_an_object", r2 is not r1, name)
                if r2 is not None:
                    I.prove(f"C20.tdf.{kind}.absent_block_read_unaffected_by_edits_of_an_earlier_one", B.encode(I, r2) == enc1, name)
        I.goal("done")
    return h


ALL = dict(SPEC)
ALL.update(SPEC_EXTRA)


def instances(tier):
    out = []
    for kind in ("events", "emg"):
        out.append(Instance(f"tdf.double_read.{kind}", tdf_double_read_case(kind), goals=["done"], cost=20))
        out.append(Instance(f"tdf.absent_read.{kind}", tdf_absent_read_case(kind), goals=["done"], cost=5))
    for cls, spec in ALL.items():
        for m in ["add", "edit"] + (["remove"] if spec["remove"] else []) + ([] if tier == "quick" else ["add_edit_remove"]):
            if cls == "calib" and m == "edit":
                continue
            out.append(Instance(f"{cls}.populated.{m}", populated_case(cls, m), goals=["done"]))
    for cls, spec in SPEC.items():
        muts = ["add", "add2"] + (["add_remove"] if spec["remove"] else []) + (["assign", "assign_shared", "assign_from_other"] if "assign" in spec else [])
        for m in muts:
            out.append(Instance(f"{cls}.fresh.{m}", fresh_case(cls, m), goals=["done"]))
        if "explicit" in spec:
            out.append(Instance(f"{cls}.explicit", explicit_case(cls), goals=["done"]))
        for m in ["add", "edit", "edit_nested"] + (["remove"] if spec["remove"] else []):
            out.append(Instance(f"{cls}.decode.{m}", decode_case(cls, m), goals=["done"]))
    for m in ["add", "edit_nested"]:
        out.append(Instance(f"calib.decode.{m}", decode_case("calib", m), goals=["done"]))
    for cls in ("fpdata", "emg", "fpcal"):
        out.append(Instance(f"{cls}.shared_item", shared_item_case(cls), goals=["done"]))
    for cls in ALL:
        for earlier in (0, 1):
            out.append(Instance(f"{cls}.replicate.{earlier}", replicate_case(cls, earlier), goals=["done"]))
    for first, second in (("events", "optical"), ("optical", "events"), ("fpcal", "optical"), ("optical", "fpcal")):
        out.append(Instance(f"cross.{first}.then.{second}", cross_class_case(first, second), goals=["done"]))
    return out
