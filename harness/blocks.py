"""Builders and field extractors for the nine writable block types.

Everything here is written against the Inputs API and `np = I.np`, so the same code
runs symbolically (symnp + proxies, real basictdf source under the shims) and
concretely (real numpy, normally imported basictdf) for replay / shim validation.

"Valid block" (DESIGN section 2): built only through public constructors and adders
(plus Data2D._camMap, which the repository's own test sets because no public setter
exists), contents symbolic subject to: a frame is either wholly missing (every
component NaN) or has no NaN and a finite gap-deciding component; labels are
cp1252-encodable, NUL-free and fit their field; integers are in the range of their
on-disk type; channel numbers are pairwise distinct.
"""
from __future__ import annotations

import z3

from symtdf import engine as E
from symtdf import symnp
from symtdf.engine import SFloat

KINDS = ["data3d", "emg", "force3d", "fpdata", "fpcal", "data2d", "calib", "optical", "events"]


# ---------------------------------------------------------------------------------
# float validity (mode agnostic)
# ---------------------------------------------------------------------------------


def _leaf_pred(I, arr, pred_sym, pred_conc):
    """Per-leaf predicate over a float array -> flat list of conditions."""
    if I.mode == "sym":
        a = symnp.asarray(arr)
        w = symnp._fw(a.dtype.code)
        out = []
        for x in a.leaves():
            if isinstance(x, int):
                out.append(bool(pred_conc(E.bits_to_float(x, w))))
            else:
                out.append(pred_sym(SFloat(w, x)))
        return out
    import numpy as np

    return [bool(pred_conc(x)) for x in np.asarray(arr).ravel()]


def isnan_list(I, arr):
    import numpy as np

    return _leaf_pred(I, arr, lambda f: f.isnan_e(), np.isnan)


def isinf_list(I, arr):
    import numpy as np

    return _leaf_pred(I, arr, lambda f: f.isinf_e(), np.isinf)


ALLOW_INF = [False]  # C02 only: a frame whose deciding component is +-inf is stored as a gap; sizes must still agree


def assume_frames(I, n, comps):
    """comps: list of arrays whose first axis is the frame; the first component of the
    first array decides the gap.  Each frame is wholly missing or fully present."""
    for f in range(n):
        nans, infs0 = [], None
        for k, a in enumerate(comps):
            row = a[f]
            nl = isnan_list(I, row)
            nans.extend(nl)
            if k == 0:
                infs0 = isinf_list(I, row)[0]
        allnan = I.and_(*nans)
        nonan = I.and_(*[I.not_(x) for x in nans])
        if ALLOW_INF[0]:
            I.assume(I.or_(allnan, nonan))
        else:
            I.assume(I.or_(allnan, I.and_(nonan, I.not_(infs0))))


def assume_no_nan(I, arr):
    for x in isnan_list(I, arr):
        I.assume(I.not_(x))


def assume_distinct(I, xs):
    for i in range(len(xs)):
        for j in range(i + 1, len(xs)):
            I.assume(I.not_(xs[i] == xs[j]))


# ---------------------------------------------------------------------------------
# builders
# ---------------------------------------------------------------------------------


def _given_as(sh, arr):
    """The caller hands the samples over in another memory representation of the same
    float32 values (sh["given"]): big-endian, or a non-contiguous (transposed-back) view."""
    how = sh.get("given")
    if how == ">f4":
        return arr.astype(">f4")
    if how == "F" and getattr(arr, "ndim", 0) >= 2:
        return arr.T.copy().T  # same values, column-major memory layout (e.g. np.vstack([x, y, z]).T)
    return arr


class Ov:
    """Inputs wrapper: named inputs listed in `ov` are replaced by the given values
    (C14 builds b = a with exactly one site changed)."""

    def __init__(self, I, ov):
        self._I = I
        self._ov = ov
        self.used = set()

    def __getattr__(self, n):
        return getattr(self._I, n)

    def _c(self, name, mk):
        if name in self._ov:
            self.used.add(name)
            return self._ov[name]
        return mk()

    def ibv(self, name, code):
        return self._c(name, lambda: self._I.ibv(name, code))

    def f32(self, name):
        return self._c(name, lambda: self._I.f32(name))

    def f64(self, name):
        return self._c(name, lambda: self._I.f64(name))

    def farray(self, name, shape, w=32):
        return self._c(name, lambda: self._I.farray(name, shape, w))

    def iarray(self, name, n, code):
        return self._c(name, lambda: self._I.iarray(name, n, code))

    def chars(self, name, length, kind="valid"):
        return self._c(name, lambda: self._I.chars(name, length, kind))

    label = chars


def build(I, kind: str, sh: dict, tag: str = "b", ov=None):
    if ov:
        w = Ov(I, ov)
        blk = globals()["build_" + kind](w, sh, tag)
        if set(ov) - w.used:
            from symtdf.inputs import HarnessError

            raise HarnessError(f"override(s) {sorted(set(ov) - w.used)} name no input of this block: the harness, not the code, is wrong")
        return blk
    return globals()["build_" + kind](I, sh, tag)


def _labels(I, tag, count, sh, width=256):
    lens = sh.get("lab", 1)
    out = []
    for k in range(count):
        L = lens[k % len(lens)] if isinstance(lens, (list, tuple)) else lens
        out.append(I.label(f"{tag}.label{k}", L))
    return out


def build_data3d(I, sh, tag="b"):
    m = I.mod("tdfData3D")
    np = I.np
    n = sh["n"]
    d = m.Data3D(
        frequency=I.ibv(f"{tag}.freq", "i32"),
        nFrames=n,
        volume=I.farray(f"{tag}.vol", (3,)),
        rotationMatrix=_given_as(sh, I.farray(f"{tag}.rot", (3, 3))),
        translationVector=I.farray(f"{tag}.tr", (3,)),
        startTime=I.f32(f"{tag}.st"),
        flag=m.Flags(sh.get("flag", 0)),
        format=m.Data3dBlockFormat(sh.get("fmt", 1)),
    )
    nl = sh.get("links", 0)
    if sh.get("fmt", 1) == 1 and nl is not None:
        pairs = [(I.ibv(f"{tag}.link{k}a", "u32"), I.ibv(f"{tag}.link{k}b", "u32")) for k in range(nl)]
        d.links = np.array(pairs, dtype=m.LinkType.btype)
    labels = _labels(I, tag, sh.get("tracks", 1), sh)
    for k in range(sh.get("tracks", 1)):
        data = I.farray(f"{tag}.t{k}", (n, 3))
        assume_frames(I, n, [data])
        d.add_track(m.MarkerTrack(labels[k], _given_as(sh, data)))
    return d


def build_emg(I, sh, tag="b"):
    m = I.mod("tdfEMG")
    n = sh["n"]
    d = m.EMG(frequency=I.ibv(f"{tag}.freq", "i32"), nSamples=n, startTime=I.f32(f"{tag}.st"))
    ns = sh.get("signals", 1)
    labels = _labels(I, tag, ns, sh)
    chans = [I.ibv(f"{tag}.ch{k}", "i16") for k in range(ns)]
    assume_distinct(I, chans)
    for k in range(ns):
        data = I.farray(f"{tag}.s{k}", (n,))
        # 1-component frames: NaN = gap, otherwise finite-or-not is irrelevant except inf
        if not ALLOW_INF[0]:
            for x, y in zip(isnan_list(I, data), isinf_list(I, data)):
                I.assume(I.or_(x, I.not_(y)))
        d.addSignal(m.EMGTrack(labels[k], _given_as(sh, data)), channel=chans[k])
    return d


def build_force3d(I, sh, tag="b"):
    m = I.mod("tdfForce3D")
    n = sh["n"]
    d = m.ForceTorque3D(
        frequency=I.ibv(f"{tag}.freq", "i32"),
        nFrames=n,
        volume=I.farray(f"{tag}.vol", (3,)),
        rotationMatrix=_given_as(sh, I.farray(f"{tag}.rot", (3, 3))),
        translationVector=I.farray(f"{tag}.tr", (3,)),
        startTime=I.f32(f"{tag}.st"),
    )
    nt = sh.get("tracks", 1)
    labels = _labels(I, tag, nt, sh)
    for k in range(nt):
        ap = I.farray(f"{tag}.t{k}.ap", (n, 3))
        fo = I.farray(f"{tag}.t{k}.f", (n, 3))
        to = I.farray(f"{tag}.t{k}.t", (n, 3))
        assume_frames(I, n, [ap, fo, to])
        d.add_track(m.ForceTorqueTrack(labels[k], _given_as(sh, ap), _given_as(sh, fo), _given_as(sh, to)))
    return d


def build_fpdata(I, sh, tag="b"):
    m = I.mod("tdfForcePlatformsData")
    n = sh["n"]
    d = m.ForcePlatformsDataBlock(start_time=I.f32(f"{tag}.st"), frequency=I.ibv(f"{tag}.freq", "i32"), n_frames=n)
    npl = sh.get("plats", 1)
    chans = [I.ibv(f"{tag}.ch{k}", "u16") for k in range(npl)]
    assume_distinct(I, chans)
    for k in range(npl):
        ap = I.farray(f"{tag}.p{k}.ap", (n, 2))
        fo = I.farray(f"{tag}.p{k}.f", (n, 3))
        to = I.farray(f"{tag}.p{k}.t", (n,))
        assume_frames(I, n, [ap, fo, to.reshape(n, 1)])
        d.add_platform(m.ForcePlatformData(_given_as(sh, ap), _given_as(sh, fo), _given_as(sh, to)), channel=chans[k])
    return d


def build_fpcal(I, sh, tag="b"):
    m = I.mod("tdfForcePlatformsCalibration")
    d = m.ForcePlatformsCalibrationDataBlock()
    npl = sh.get("plats", 1)
    labels = _labels(I, tag, npl, sh)
    chans = [I.ibv(f"{tag}.ch{k}", "i16") for k in range(npl)]
    assume_distinct(I, chans)
    for k in range(npl):
        info = m.ForcePlatformInfo(labels[k], I.farray(f"{tag}.p{k}.size", (2,)), I.farray(f"{tag}.p{k}.pos", (4, 3)))
        d.add_platform(info, channel=chans[k])
    return d


def build_data2d(I, sh, tag="b"):
    m = I.mod("tdfData2D")
    np = I.np
    cells = sh["cells"]  # [frame][cam] -> None | number of points (>= 1)
    nF = len(cells)
    nC = len(cells[0]) if nF else sh.get("cams", 0)
    d = m.Data2D(nC, nF, I.ibv(f"{tag}.freq", "i32"), I.f32(f"{tag}.st"), m.Data2DFlags(sh.get("flag", 0)))
    data = np.empty((nF, nC), dtype=object)
    for f in range(nF):
        for c in range(nC):
            k = cells[f][c]
            if k in ("e1", "e2"):
                # a cell with no points, given as an empty array of shape (0,) / (0, 2)
                data[f, c] = np.zeros((0,) if k == "e1" else (0, 2), dtype="<f4")
            elif k is not None and sh.get("concrete_points"):
                # scale instance: many concrete, pairwise different points per cell
                base = (f * nC + c) * 1000003
                data[f, c] = np.array([[float((base + 2 * j) % 16777213), float((base + 2 * j + 1) % 16777213)] for j in range(k)], dtype="<f4")
            elif k is not None:
                data[f, c] = I.farray(f"{tag}.cell{f}_{c}", (k, 2))
    d.data = data
    d._camMap = [I.ibv(f"{tag}.cam{c}", "u16") for c in range(nC)]
    return d


def _viewport(I, tag):
    T = I.mod("tdfTypes")
    return T.CameraViewPort(I.iarray(f"{tag}.vo", 2, "i32"), I.iarray(f"{tag}.vs", 2, "i32"))


def _cam_map(I, name, nc, dt):
    """camera map; with map_dtype the caller's array has another integer dtype (values
    still fit int16, the on-disk type)"""
    m = I.iarray(name, nc, "i16")
    if not dt:
        return m
    if dt == "<u1":
        for k in range(nc):
            I.assume(I.and_(m[k] >= 0, m[k] <= 255))
    return I.np.asarray(m).astype(dt)


def build_calib(I, sh, tag="b"):
    m = I.mod("tdfCalibrationData")
    fmt = sh.get("fmt", 1)
    nc = sh.get("cams", 1)
    cams = []
    for k in range(nc):
        t = f"{tag}.c{k}"
        common = dict(
            rotation_matrix=I.farray(f"{t}.rot", (3, 3), 64),
            translation_vector=I.farray(f"{t}.tr", (3,), 64),
            focus=I.farray(f"{t}.foc", (2,), 64),
            optical_center=I.farray(f"{t}.oc", (2,), 64),
            view_port=_viewport(I, t),
        )
        if fmt == 1:
            cams.append(m.SeelabCameraData(
                radial_distortion=I.farray(f"{t}.rad", (2,), 64),
                decentering=I.farray(f"{t}.dec", (2,), 64),
                thin_prism=I.farray(f"{t}.thin", (2,), 64), **common))
        else:
            ncoef = sh.get("ncoef", 70)
            cams.append(m.BTSCameraData(
                x_distortion_coefficients=I.farray(f"{t}.xd", (ncoef,), 64),
                y_distortion_coefficients=I.farray(f"{t}.yd", (ncoef,), 64), **common))
    return m.CalibrationDataBlock(
        distorsion_model=m.DistorsionModel(sh.get("model", 0)),
        calibration_volume_size=I.farray(f"{tag}.vol", (3,)),
        calibration_volume_rotation_matrix=I.farray(f"{tag}.rot", (3, 3)),
        calibration_volume_translation_vector=I.farray(f"{tag}.tr", (3,)),
        cameras_calibration_map=_cam_map(I, f"{tag}.map", nc, sh.get("map_dtype")),
        cam_data=cams,
        format=m.CalibrationDataBlockFormat(fmt),
    )


def build_optical(I, sh, tag="b"):
    m = I.mod("tdfOpticalSystem")
    nch = sh.get("channels", 1)
    lens = sh.get("lab", 1)
    chans = []
    for k in range(nch):
        L = lens[k % len(lens)] if isinstance(lens, (list, tuple)) else lens
        chans.append(m.OpticalChannelData(
            logical_camera_index=I.ibv(f"{tag}.ch{k}.idx", "i32"),
            lens_name=I.label(f"{tag}.ch{k}.lens", L),
            camera_type=I.label(f"{tag}.ch{k}.type", max(0, L - 1)),
            camera_name=I.label(f"{tag}.ch{k}.name", min(31, L + 1)),
            camera_viewport=_viewport(I, f"{tag}.ch{k}"),
        ))
    return m.OpticalSetupBlock(channels=chans)


def build_events(I, sh, tag="b"):
    m = I.mod("tdfEvents")
    d = m.TemporalEventsData(start_time=I.f32(f"{tag}.st"))
    evs = sh.get("events", [(0, 1)])  # list of (kind, nvalues)
    labels = _labels(I, tag, len(evs), sh)
    for k, (kind, nv) in enumerate(evs):
        vals = I.farray(f"{tag}.e{k}", (nv,))
        assume_no_nan(I, vals) if sh.get("no_nan") else None
        d.events.append(m.Event(labels[k], vals, m.EventsDataType(kind)))
    return d


CLASS_OF = {
    "data3d": ("tdfData3D", "Data3D"), "emg": ("tdfEMG", "EMG"), "force3d": ("tdfForce3D", "ForceTorque3D"),
    "fpdata": ("tdfForcePlatformsData", "ForcePlatformsDataBlock"),
    "fpcal": ("tdfForcePlatformsCalibration", "ForcePlatformsCalibrationDataBlock"),
    "data2d": ("tdfData2D", "Data2D"), "calib": ("tdfCalibrationData", "CalibrationDataBlock"),
    "optical": ("tdfOpticalSystem", "OpticalSetupBlock"), "events": ("tdfEvents", "TemporalEventsData"),
}


def block_class(I, kind):
    mod, cls = CLASS_OF[kind]
    return getattr(I.mod(mod), cls)


def encode(I, blk):
    f = I.BytesIO()
    blk._write(f)
    return f.getvalue()


def decode(I, kind, data, fmt_value, trailer=b""):
    """-> (block, stream position after _build)"""
    f = I.BytesIO(data + trailer if trailer else data)
    b = block_class(I, kind)._build(f, fmt_value)
    return b, f.tell()


# ---------------------------------------------------------------------------------
# field extraction at on-disk width
# ---------------------------------------------------------------------------------


class Frames:
    """Per-frame sample bytes with gap awareness: two frames agree when their bits are
    identical or both are wholly missing (all components NaN)."""

    def __init__(self, I, comps, n):
        np = I.np
        self.rows = []
        for f in range(n):
            bs = None
            nans = []
            for a in comps:
                row = np.asarray(a[f]).astype("<f4")
                b = row.tobytes()
                bs = b if bs is None else bs + b
                nans.extend(isnan_list(I, row))
            self.rows.append((bs, I.and_(*nans)))


def tob(I, x, dt):
    np = I.np
    if hasattr(x, "astype"):
        return np.asarray(x).astype(dt).tobytes()
    return np.array(x, dtype=dt).tobytes()


def fields(I, kind, b, values=False):
    """Ordered list of (name, value) of every stored field, at on-disk width.  With values=True
    the integer maps (channel / camera numbers) are listed a second time widened to 64 bits:
    a decoder that reads them with the wrong signedness returns other numbers although the
    on-disk bytes are the same."""
    np = I.np
    out = []
    A = out.append
    A(("format", b.format.value))
    if kind == "data3d":
        A(("nFrames", tob(I, b.nFrames, "<i4")))
        A(("frequency", tob(I, b.frequency, "<i4")))
        A(("startTime", tob(I, b.startTime, "<f4")))
        A(("volume", tob(I, b.volume, "<f4")))
        A(("rotationMatrix", tob(I, b.rotationMatrix, "<f4")))
        A(("translationVector", tob(I, b.translationVector, "<f4")))
        A(("flag", b.flag.value))
        if b.format.value in (1, 3):
            links = b.links if hasattr(b, "links") else []
            A(("nLinks", len(links)))
            A(("links", tob(I, links, I.mod("tdfData3D").LinkType.btype) if len(links) else b""))
        A(("nTracks", len(b)))
        for k, t in enumerate(b):
            A((f"track{k}.label", t.label))
            A((f"track{k}.nFrames", t.nFrames))
            A((f"track{k}.data", Frames(I, [t.data], t.nFrames)))
    elif kind == "emg":
        A(("frequency", tob(I, b.frequency, "<i4")))
        A(("startTime", tob(I, b.startTime, "<f4")))
        A(("nSamples", tob(I, b.nSamples, "<i4")))
        A(("nSignals", len(b)))
        A(("channels", tob(I, list(b._emgMap), "<i2") if len(b._emgMap) else b""))
        if values and len(b._emgMap):
            A(("channels.values", tob(I, list(b._emgMap), "<i8")))
        for k, t in enumerate(b):
            A((f"signal{k}.label", t.label))
            A((f"signal{k}.nSamples", t.nSamples))
            A((f"signal{k}.data", Frames(I, [np.asarray(t.data).reshape(t.nSamples, 1)], t.nSamples)))
    elif kind == "force3d":
        A(("frequency", tob(I, b.frequency, "<i4")))
        A(("startTime", tob(I, b.startTime, "<f4")))
        A(("nFrames", tob(I, b.nFrames, "<i4")))
        A(("volume", tob(I, b.volume, "<f4")))
        A(("rotationMatrix", tob(I, b.rotationMatrix, "<f4")))
        A(("translationVector", tob(I, b.translationVector, "<f4")))
        A(("nTracks", len(b)))
        for k, t in enumerate(b):
            A((f"track{k}.label", t.label))
            A((f"track{k}.nFrames", t.nFrames))
            A((f"track{k}.data", Frames(I, [t.application_point, t.force, t.torque], t.nFrames)))
    elif kind == "fpdata":
        A(("frequency", tob(I, b.frequency, "<i4")))
        A(("startTime", tob(I, b.start_time, "<f4")))
        A(("nFrames", tob(I, b.n_frames, "<i4")))
        plats = list(b.platforms)
        A(("nPlatforms", len(plats)))
        A(("channels", tob(I, list(b._plat_map), "<u2") if len(plats) else b""))
        if values and len(plats):
            A(("channels.values", tob(I, list(b._plat_map), "<i8")))
        for k, p in enumerate(plats):
            n = len(p.torque)
            A((f"plat{k}.nFrames", n))
            A((f"plat{k}.data", Frames(I, [p.application_point, p.force, np.asarray(p.torque).reshape(n, 1)], n)))
    elif kind == "fpcal":
        pl = b.platforms
        A(("nPlatforms", len(pl)))
        A(("channels", tob(I, [c for c, _ in pl], "<i2") if pl else b""))
        if values and len(pl):
            A(("channels.values", tob(I, [c for c, _ in pl], "<i8")))
        for k, (_, p) in enumerate(pl):
            A((f"plat{k}.label", p.label))
            A((f"plat{k}.size", tob(I, p.size, "<f4")))
            A((f"plat{k}.position", tob(I, p.position, "<f4")))
    elif kind == "data2d":
        A(("nCams", tob(I, b.nCams, "<i4")))
        A(("nFrames", tob(I, b.nFrames, "<i4")))
        A(("frequency", tob(I, b.frequency, "<i4")))
        A(("startTime", tob(I, b.startTime, "<f4")))
        A(("flags", b.flags.value))
        A(("camMap", tob(I, list(b._camMap), "<u2") if len(b._camMap) else b""))
        if values and len(b._camMap):
            A(("camMap.values", tob(I, list(b._camMap), "<i8")))
        data = b.data
        A(("shape", tuple(data.shape)))
        for f in range(data.shape[0]):
            for c in range(data.shape[1]):
                cell = data[f, c]
                A((f"cell{f}_{c}", None if cell is None else (tuple(cell.shape), tob(I, cell, "<f4"))))
    elif kind == "calib":
        A(("distorsion_model", int(b.distorsion_model)))
        A(("volume", tob(I, b.calibration_volume_size, "<f4")))
        A(("rotation", tob(I, b.calibration_volume_rotation_matrix, "<f4")))
        A(("translation", tob(I, b.calibration_volume_translation_vector, "<f4")))
        A(("nCams", len(b.cam_data)))
        A(("map", tob(I, b.cameras_calibration_map, "<i2")))
        if values and len(b.cam_data):
            A(("map.values", tob(I, b.cameras_calibration_map, "<i8")))
        for k, c in enumerate(b.cam_data):
            A((f"cam{k}.class", type(c).__name__))
            A((f"cam{k}.rotation", tob(I, c.rotation_matrix, "<f8")))
            A((f"cam{k}.translation", tob(I, c.translation_vector, "<f8")))
            A((f"cam{k}.focus", tob(I, c.focus, "<f8")))
            A((f"cam{k}.optical_center", tob(I, c.optical_center, "<f8")))
            if type(c).__name__ == "SeelabCameraData":
                A((f"cam{k}.radial", tob(I, c.radial_distortion, "<f8")))
                A((f"cam{k}.decentering", tob(I, c.decentering, "<f8")))
                A((f"cam{k}.thin_prism", tob(I, c.thin_prism, "<f8")))
            else:
                A((f"cam{k}.xd", tob(I, c.x_distortion_coefficients, "<f8")))
                A((f"cam{k}.yd", tob(I, c.y_distortion_coefficients, "<f8")))
            A((f"cam{k}.vp.origin", tob(I, c.view_port.origin, "<i4")))
            A((f"cam{k}.vp.size", tob(I, c.view_port.size, "<i4")))
    elif kind == "optical":
        A(("nChannels", len(b)))
        for k, c in enumerate(b):
            A((f"ch{k}.index", tob(I, c.logical_camera_index, "<i4")))
            A((f"ch{k}.lens", c.lens_name))
            A((f"ch{k}.type", c.camera_type))
            A((f"ch{k}.name", c.camera_name))
            A((f"ch{k}.vp.origin", tob(I, c.camera_viewport.origin, "<i4")))
            A((f"ch{k}.vp.size", tob(I, c.camera_viewport.size, "<i4")))
    elif kind == "events":
        A(("start_time", tob(I, b.start_time, "<f4")))
        A(("nEvents", len(b)))
        for k, e in enumerate(b):
            A((f"event{k}.label", e.label))
            A((f"event{k}.type", e.type.value))
            A((f"event{k}.nValues", len(e.values)))
            A((f"event{k}.values", tob(I, e.values, "<f4") if len(e.values) else b""))
    else:
        raise ValueError(kind)
    return out


def eqv(I, x, y):
    """Equality of two field values -> bool / SBool."""
    if isinstance(x, Frames) and isinstance(y, Frames):
        if len(x.rows) != len(y.rows):
            return False
        conds = []
        for (bx, nx), (by, ny) in zip(x.rows, y.rows):
            conds.append(I.or_(I.and_(nx, ny), bx == by))
        return I.and_(*conds) if conds else True
    if isinstance(x, tuple) and isinstance(y, tuple):
        if len(x) != len(y):
            return False
        return I.and_(*[eqv(I, a, b) for a, b in zip(x, y)]) if x else True
    if (x is None) != (y is None):
        return False
    if x is None:
        return True
    return x == y


def compare_fields(I, prove, prefix, f1, f2):
    """One labelled obligation per field name class."""
    n1 = [n for n, _ in f1]
    n2 = [n for n, _ in f2]
    prove(f"{prefix}.same_field_list", n1 == n2)
    if n1 != n2:
        return
    import re

    groups = {}
    for (n, a), (_, b) in zip(f1, f2):
        cls = re.sub(r"\d+", "", n)
        groups.setdefault(cls, []).append(eqv(I, a, b))
    for cls, conds in groups.items():
        prove(f"{prefix}.{cls}", I.and_(*conds))


def observe_fields(I, name, fl):
    for n, v in fl:
        if isinstance(v, Frames):
            I.observe(f"{name}.{n}", [r[0] for r in v.rows])
        else:
            I.observe(f"{name}.{n}", v)
