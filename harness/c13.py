"""C13 - fixed-width text fields: exact width, lossless for valid text, else refused.

Real functions: BTSString.write / read / bwrite / bread (tdfTypes.py).
Symbolic: every character (any code point), every byte of the field on the read side.
Enumerated: field width, string length, position of the first NUL on the read side.
"""
from symtdf.runner import Instance

PROPERTY = "C13"

WIDTHS_Q = {1: range(0, 4), 2: range(0, 5), 3: range(0, 6), 4: range(0, 7), 8: range(0, 11),
            32: [0, 1, 2, 15, 30, 31, 32, 33, 34], 256: [0, 1, 3, 127, 254, 255, 256, 257, 258]}
WIDTHS_T = {1: range(0, 4), 2: range(0, 5), 3: range(0, 6), 4: range(0, 7), 8: range(0, 11), 16: range(0, 19),
            32: range(0, 35), 256: list(range(0, 12)) + list(range(120, 136)) + list(range(240, 260))}

META = {
    "explanation": "symbolic execution of the real BTSString codec over z3 (QF_BV characters/bytes); "
                   "cp1252 tables generated from the running interpreter's codec",
    "bounds": {
        "quick": {"widths": sorted(WIDTHS_Q), "lengths": "0..W+2 for W<=8; boundary lengths for 32 and 256", "embedded_NUL": "W<=8 (NUL-free arbitrary code points above)",
                  "read_side": "first-NUL position in {0,1,mid,W-1,none}, all other bytes symbolic"},
        "thorough": {"widths": sorted(WIDTHS_T), "lengths": "all 0..W+2 up to W=32; 48 lengths incl. 240..259 for 256", "embedded_NUL": "W<=32",
                     "read_side": "every first-NUL position for W<=32, 12 positions for 256"},
    },
    "outside_bounds": ["field widths other than those listed", "strings longer than W+2 (3 for W=256: 256..258)",
                       "encodings other than windows-1252", "lone surrogate code points (cannot be encoded by any codec path differently)"],
    "assumptions": ["CPython's cp1252 codec (tables read from the interpreter at start-up)",
                    "struct.unpack('<n>s') returns the buffer unchanged"],
}


def write_case(width: int, length: int, kind: str = "any"):
    def h(I):
        S = I.mod("tdfTypes").BTSString
        s = I.chars("s", length, kind=kind)
        try:
            out = S.write(width, s)
            exc = None
        except Exception as e:  # noqa: BLE001
            out, exc = None, e
        I.observe("exc", type(exc).__name__ if exc is not None else None)
        I.observe("out", out)
        from symtdf.sbytes import cp_items, enc_ok_e, enc_e, cp_bv, item_eq
        import z3

        cps = cp_items(s) if length else []
        encodable = [enc_ok_e(cp_bv(c)) for c in cps]
        if exc is not None:
            I.goal("refused")
            I.prove("C13.write.refusal_is_ValueError", isinstance(exc, ValueError))
            # a refusal must be justified: too long, or some character not encodable
            I.prove("C13.write.refused_only_if_invalid",
                    I.or_(length >= width, *[z3.Not(e) for e in encodable]))
            return
        I.goal("accepted")
        I.prove("C13.write.exact_width", len(out) == width)
        I.prove("C13.write.accepted_only_if_fits", length < width)
        I.prove("C13.write.accepted_only_if_encodable", I.and_(*encodable) if encodable else True)
        items = list(out) if isinstance(out, bytes) else out.items
        body = []
        for i, c in enumerate(cps):
            if i < len(items):
                body.append(item_eq(items[i], z3.simplify(enc_e(cp_bv(c)))))
        I.prove("C13.write.body_is_encoding", I.and_(*body) if body else True)
        I.prove("C13.write.terminated_and_zero_padded",
                all(isinstance(x, int) and x == 0 for x in items[length:]) and len(items) > length)
        # read back
        try:
            back = S.read(width, out)
            rexc = None
        except Exception as e:  # noqa: BLE001
            back, rexc = None, e
        I.observe("back", back if rexc is None else type(rexc).__name__)
        # for kinds other than "any" NUL-freeness is already part of the path condition
        no_nul = (I.and_(*[cp_bv(c) != 0 for c in cps]) if cps else True) if kind == "any" else True
        I.prove("C13.roundtrip.read_does_not_raise", rexc is None)
        if rexc is None:
            I.prove("C13.roundtrip.lossless_without_NUL", I.implies(no_nul, back == s))
    return h


def stream_case(width: int, length: int):
    """bwrite / bread through a stream: exactly `width` bytes written and consumed, the
    neighbouring field is untouched."""
    def h(I):
        S = I.mod("tdfTypes").BTSString
        s = I.chars("s", length, kind="valid")
        f = I.BytesIO()
        f.write(b"\xAA" * 3)
        try:
            S.bwrite(f, width, s)
            exc = None
        except Exception as e:  # noqa: BLE001
            exc = e
        I.observe("exc", type(exc).__name__ if exc is not None else None)
        if length >= width:
            I.prove("C13.stream.too_long_refused", isinstance(exc, ValueError))
            I.prove("C13.stream.nothing_spilled_on_refusal", f.getvalue() == b"\xAA" * 3)
            I.goal("refused")
            return
        I.goal("accepted")
        I.prove("C13.stream.valid_accepted", exc is None)
        if exc is not None:
            return
        f.write(b"\xBB" * 2)
        v = f.getvalue()
        I.observe("stream", v)
        I.prove("C13.stream.exact_width_written", len(v) == 3 + width + 2)
        I.prove("C13.stream.neighbours_intact", I.and_(v[:3] == b"\xAA" * 3, v[3 + width:] == b"\xBB" * 2))
        f.seek(3)
        back = S.bread(f, width)
        I.observe("back", back)
        I.prove("C13.stream.exact_width_consumed", f.tell() == 3 + width)
        I.prove("C13.stream.lossless", back == s)
    return h


def read_case(width: int, nulpos):
    """Read side: all bytes symbolic; `nulpos` is the index of the first NUL (None: no
    NUL in the field)."""
    def h(I):
        import z3
        from symtdf.sbytes import items_of, mkbytes, dec_ok_e, item_bv

        S = I.mod("tdfTypes").BTSString
        p = width if nulpos is None else nulpos
        prefix = I.rawbytes("prefix", p)
        for x in items_of(prefix):
            I.assume(item_bv(x) != 0)
        tail_len = max(0, width - p - 1)
        tail1 = I.rawbytes("tail1", tail_len)
        tail2 = I.rawbytes("tail2", tail_len)
        mid = b"" if nulpos is None else b"\x00"
        b1 = mkbytes(items_of(prefix) + list(mid) + items_of(tail1))
        b2 = mkbytes(items_of(prefix) + list(mid) + items_of(tail2))

        def rd(b):
            try:
                return S.read(width, b), None
            except Exception as e:  # noqa: BLE001
                return None, e

        r1, e1 = rd(b1)
        r2, e2 = rd(b2)
        I.observe("r1", r1 if e1 is None else type(e1).__name__)
        I.observe("r2", r2 if e2 is None else type(e2).__name__)
        decodable = [dec_ok_e(item_bv(x)) for x in items_of(prefix)]
        if e1 is not None:
            I.goal("undecodable")
            I.prove("C13.read.error_is_ValueError", isinstance(e1, ValueError))
            I.prove("C13.read.raises_only_on_undecodable_text", I.or_(*[z3.Not(d) for d in decodable]) if decodable else False)
            I.prove("C13.read.tail_never_matters", e2 is not None and type(e2) is type(e1))
            return
        I.goal("decoded")
        I.prove("C13.read.tail_never_matters", e2 is None and (r1 == r2))
        I.prove("C13.read.length_is_text_before_NUL", len(r1) == p)
        if p < width:
            try:
                again = S.write(width, r1)
                we = None
            except Exception as e:  # noqa: BLE001
                again, we = None, e
            I.observe("again", again if we is None else type(we).__name__)
            I.prove("C13.read.rewrite_accepted", we is None)
            if we is None:
                canonical = mkbytes(items_of(prefix) + [0] * (width - p))
                I.prove("C13.read.rewrite_is_canonical", again == canonical)
    return h


def optical_name_case(field, L):
    """A camera record whose 32-byte name field is given L characters: the record writer must
    behave like BTSString.write(32, ...) - exact width and terminator for L <= 31, refusal
    (never truncation, never a missing terminator) for L >= 32."""
    def h(I):
        m = I.mod("tdfOpticalSystem")
        T = I.mod("tdfTypes")
        names = {"lens_name": "a", "camera_type": "b", "camera_name": "c"}
        names[field] = I.chars("name", L, kind="valid")
        ch = m.OpticalChannelData(1, names["lens_name"], names["camera_type"], names["camera_name"],
                                  T.CameraViewPort(I.np.array([0, 0], dtype="<i4"), I.np.array([640, 480], dtype="<i4")))
        f = I.BytesIO()
        try:
            ch._write(f)
            exc = None
        except Exception as e:  # noqa: BLE001
            exc = e
        I.observe("exc", type(exc).__name__ if exc else None)
        if L >= 32:
            I.goal("too_long")
            I.prove("C13.stream.too_long_refused", isinstance(exc, ValueError), f"{field} of {L} characters: {type(exc).__name__ if exc else 'accepted'}")
            return
        I.goal("fits")
        I.prove("C13.stream.valid_accepted", exc is None, f"{type(exc).__name__ if exc else ''}")
        if exc is None:
            data = f.getvalue()
            off = 8 + 32 * ["lens_name", "camera_type", "camera_name"].index(field)
            I.prove("C13.stream.exact_width", len(data) == 120)
            I.prove("C13.write.terminated_and_zero_padded", data[off + L:off + 32] == b"\x00" * (32 - L))
            I.prove("C13.stream.lossless", T.BTSString.read(32, data[off:off + 32]) == names[field])
    return h


def instances(tier: str):
    W = WIDTHS_Q if tier == "quick" else WIDTHS_T
    out = []
    for field in ("lens_name", "camera_type", "camera_name"):
        for L in ((31, 32, 33) if tier == "quick" else (0, 1, 30, 31, 32, 33, 40, 64)):
            out.append(Instance(f"optical.{field}.len{L}", optical_name_case(field, L), goals=["too_long" if L >= 32 else "fits"], cost=L))
    for w, lens in W.items():
        for n in lens:
            goals = ["accepted"] if n < w else ["refused"]
            if 0 < n < w:
                goals = ["accepted", "refused"]
            # embedded NULs (one extra path per position, each O(n) queries) for short
            # fields; NUL-free arbitrary code points for the long ones
            kind = "any" if (w <= 8 or (tier != "quick" and w <= 32)) else "nonul"
            out.append(Instance(f"write.w{w}.len{n}.{kind}", write_case(w, n, kind), goals=goals, cost=n * n + 1))
            out.append(Instance(f"stream.w{w}.len{n}", stream_case(w, n), goals=["accepted" if n < w else "refused"], cost=n + 1))
        if tier == "quick" or w > 32:
            pos = sorted({0, 1, w // 2, w - 1} & set(range(w))) + [None]
            if w > 32 and tier != "quick":
                pos = sorted({0, 1, 2, 31, 32, 127, 128, 200, 253, 254, 255}) + [None]
        else:
            pos = list(range(w)) + [None]
        for p in pos:
            goals = ["decoded"] + (["undecodable"] if (p is None or p > 0) else [])
            out.append(Instance(f"read.w{w}.nul{p}", read_case(w, p), goals=goals, cost=(w if p is None else p) ** 2 + 1))
    return out
