"""Shared codec harness for C01 (round trip), C02 (sizes) and C05 (gaps).

One symbolic run of: build valid block -> real _write -> real _build -> real _write.
Which obligations are asserted depends on the property being checked.
"""
from __future__ import annotations

from symtdf.runner import Instance

from . import blocks as B

SENTINEL = b"\xA5\x5A\xC3\x3C\x96"


def parse_segments(data, pos):
    """Independent parser of a segment table at byte offset `pos` of concrete-shaped
    bytes: i32 nSegments, i32 pad, nSegments x (i32 start, i32 count).
    Returns (segments, position after the table) or None if not concrete."""
    def rd(p):
        chunk = data[p:p + 4]
        if not isinstance(chunk, bytes):
            return None
        return int.from_bytes(chunk, "little", signed=True)

    n = rd(pos)
    if n is None or n < 0 or n > 10000:
        return None
    segs = []
    p = pos + 8
    for _ in range(n):
        a, c = rd(p), rd(p + 4)
        if a is None or c is None:
            return None
        segs.append((a, c))
        p += 8
    return segs, p


def track_layout(kind, blk):
    """(header bytes before the first track, per-track: (label bytes, components per frame))"""
    if kind == "data3d":
        head = 4 + 4 + 4 + 4 + 12 + 36 + 12 + 4
        if blk.format.value in (1, 3):
            head += 8 + 8 * (len(blk.links) if hasattr(blk, "links") else 0)
        return head, 256, 3
    if kind == "emg":
        return 16 + 2 * len(blk), 256, 1
    if kind == "force3d":
        return 16 + 12 + 36 + 12 + 4, 256, 9
    if kind == "fpdata":
        return 16 + 2 * len(list(blk.platforms)), 0, 6
    raise ValueError(kind)


def tracks_of(kind, blk):
    if kind == "fpdata":
        return list(blk.platforms)
    return list(blk)


def gap_component(I, kind, t):
    """The array whose first component decides presence of a frame."""
    np = I.np
    if kind == "data3d":
        return t.data
    if kind == "emg":
        return np.asarray(t.data).reshape(t.nSamples, 1)
    return t.application_point


def all_components(I, kind, t, n):
    np = I.np
    if kind == "data3d":
        return [t.data]
    if kind == "emg":
        return [np.asarray(t.data).reshape(n, 1)]
    if kind == "force3d":
        return [t.application_point, t.force, t.torque]
    return [t.application_point, t.force, np.asarray(t.torque).reshape(n, 1)]


def presence_mask(I, kind, t, n):
    """Concrete presence mask of a track on the current path (the validity assumption
    makes 'first component is NaN' equivalent to 'frame wholly missing'; the symbolic
    bits were decided by the library's own masked_invalid on this path, so bool() here
    only looks the decision up - or forks if the library never looked)."""
    g = gap_component(I, kind, t)
    out = []
    for f in range(n):
        x = B.isnan_list(I, g[f])[0]
        present = not I.truth(x)
        if present and B.ALLOW_INF[0]:
            # +-inf in the deciding component: the library (masked_invalid) stores the
            # frame as a gap, so it counts as missing for the run-length obligations
            present = not I.truth(B.isinf_list(I, g[f])[0])
        out.append(present)
    return out


def runs_of(mask):
    out, start = [], None
    for i, m in enumerate(mask):
        if m and start is None:
            start = i
        if not m and start is not None:
            out.append((start, i - start))
            start = None
    if start is not None:
        out.append((start, len(mask) - start))
    return out


def edit_in_place(I, kind, blk, n, how):
    """how = "blank": frame 0 of the first item becomes wholly missing;
    how = "fill": it becomes present with fresh symbolic values.  The item's own arrays are
    written through (element assignment), as a user filling or cutting a gap would do."""
    if kind == "events":
        # the first (sequence) event gets a value array of another length / the list grows
        ev = list(blk)[0]
        if how == "values":
            ev.values = I.farray("edit.v", (len(ev.values) + 1,))
        else:
            m = I.mod("tdfEvents")
            blk.events.append(m.Event(I.label("edit.lab", 1), I.farray("edit.v", (1,)), m.EventsDataType(0)))
        return []
    if kind == "optical":
        m = I.mod("tdfOpticalSystem")
        blk.channels.append(m.OpticalChannelData(I.ibv("edit.idx", "i32"), I.label("edit.l", 1), I.label("edit.t", 1), I.label("edit.n", 1),
                                                 I.mod("tdfTypes").CameraViewPort(I.iarray("edit.vo", 2, "i32"), I.iarray("edit.vs", 2, "i32"))))
        return []
    t = tracks_of(kind, blk)[0]
    comps = all_components(I, kind, t, n)
    news = []
    for k, a in enumerate(comps):
        if how == "blank":
            a[0] = float("nan")
        else:
            v = I.farray(f"edit.c{k}", tuple(a[0].shape))
            B.assume_no_nan(I, v)
            if k == 0:
                I.assume(I.not_(B.isinf_list(I, v)[0]))
            a[0] = v
            news.append(v)
    return news


def case(kind: str, sh: dict, pid: str):
    def h(I):
        B.ALLOW_INF[0] = bool(sh.get("allow_inf"))
        def P(p, label, cond, note=""):
            if p == pid:
                I.prove(f"{p}.{kind}.{label}", cond, note)

        blk = B.build(I, kind, sh)
        n = sh.get("n")

        def run_round(sfx):
            """encode -> decode -> encode with every obligation of the property (labels carry sfx)"""
            def P(p, label, cond, note=""):
                if p == pid:
                    I.prove(f"{p}.{kind}.{label}{sfx}", cond, note)

            # what the block holds *before* the library looks at it (the encoder must not
            # change the caller's data, and everything below is measured against this)
            f1 = B.fields(I, kind, blk, values=True)
            snap_masks, snap_rows = [], []
            if pid == "C05" and kind in ("data3d", "emg", "force3d", "fpdata"):
                for t_ in tracks_of(kind, blk):
                    snap_masks.append(presence_mask(I, kind, t_, n))
                    snap_rows.append([[B.tob(I, a_[f_], "<f4") for f_ in range(n)] for a_ in all_components(I, kind, t_, n)])
            exc = None
            try:
                declared = blk.nBytes
                bytes1 = B.encode(I, blk)
            except Exception as e:  # noqa: BLE001
                exc = e
            I.observe("encode_exc", type(exc).__name__ if exc else None)
            if exc is not None:
                P(pid, "valid_block_encodes", False, f"{type(exc).__name__}: {exc}")
                return
            I.observe("bytes1", bytes1)
            I.observe("nBytes", declared)
            I.goal("encoded")

            # ---------------- C02: declared size == bytes written ------------------------
            P("C02", "nBytes_eq_written", declared == len(bytes1), f"declared={declared} written={len(bytes1)}")
            if pid == "C02" and kind in ("data3d", "emg", "force3d", "fpdata", "fpcal", "calib", "optical", "events", "data2d"):
                items = []
                if kind in ("data3d", "emg", "force3d"):
                    items = list(blk)
                elif kind == "fpdata":
                    items = list(blk.platforms)
                elif kind == "fpcal":
                    items = [p for _, p in blk.platforms]
                elif kind == "calib":
                    items = list(blk.cam_data)
                elif kind == "optical":
                    items = list(blk)
                elif kind == "events":
                    items = list(blk)
                elif kind == "data2d":
                    items = [blk._data]
                tot = 0
                for it in items:
                    f = I.BytesIO()
                    if kind == "fpdata":
                        it._write(f, blk.format)
                    else:
                        it._write(f)
                    w = len(f.getvalue())
                    P("C02", "item_nBytes_eq_written", it.nBytes == w, f"item declared={it.nBytes} written={w}")
                    tot += w
                P("C02", "items_fit_in_block", tot <= len(bytes1))

            # ---------------- decode ---------------------------------------------------------
            try:
                blk2, pos = B.decode(I, kind, bytes1, blk.format.value, SENTINEL)
                dexc = None
            except Exception as e:  # noqa: BLE001
                dexc = e
            I.observe("decode_exc", type(dexc).__name__ if dexc else None)
            if dexc is not None:
                P(pid, "own_encoding_decodes", False, f"{type(dexc).__name__}: {dexc}")
                return
            P("C02", "decode_consumes_exactly_nBytes", pos == declared, f"pos={pos} declared={declared}")
            P("C02", "decoded_nBytes_same", blk2.nBytes == declared)

            f2 = B.fields(I, kind, blk2, values=True)
            B.observe_fields(I, "decoded", f2)
            if pid == "C01":
                B.compare_fields(I, lambda lab, c: P("C01", "field" + lab, c), "", f1, f2)
            try:
                bytes2 = B.encode(I, blk2)
                e2 = None
            except Exception as e:  # noqa: BLE001
                e2 = e
            I.observe("bytes2", bytes2 if e2 is None else type(e2).__name__)
            if e2 is not None:
                P(pid, "decoded_block_encodes", False, f"{type(e2).__name__}: {e2}")
                return
            P("C01", "reencode_identical", bytes2 == bytes1)
            P("C02", "reencode_same_length", len(bytes2) == len(bytes1))

            # ---------------- C01: views of decoded arrays as new input --------------------------
            if pid == "C01" and sh.get("crop") and kind in ("data3d", "emg", "force3d", "fpdata") and n >= 2:
                # a new block built from slices of the arrays a decode handed out (cropping a
                # trial) must encode the values of those slices - the same bytes a block built
                # from independent copies of them encodes to
                from . import simple as S_
                outs = []
                for mode in ("views", "copies"):
                    take = (lambda a: a[1:]) if mode == "views" else (lambda a: a[1:].copy())
                    if kind == "fpdata":
                        m_ = I.mod("tdfForcePlatformsData")
                        nb = m_.ForcePlatformsDataBlock(blk2.start_time, blk2.frequency, n - 1)
                        for p_ in list(blk2.platforms):
                            nb.add_platform(m_.ForcePlatformData(take(p_.application_point), take(p_.force), take(p_.torque)))
                    else:
                        nb = S_.new_block(I, kind, n - 1)
                        for t_ in list(blk2):
                            if kind == "data3d":
                                it_ = I.mod("tdfData3D").MarkerTrack(t_.label, take(t_.data))
                            elif kind == "emg":
                                it_ = I.mod("tdfEMG").EMGTrack(t_.label, take(t_.data))
                            else:
                                it_ = I.mod("tdfForce3D").ForceTorqueTrack(t_.label, take(t_.application_point), take(t_.force), take(t_.torque))
                            S_.add_item(kind, nb, it_)
                    try:
                        outs.append(B.encode(I, nb))
                    except Exception as e_:  # noqa: BLE001
                        outs.append(e_)
                I.observe("crop", [o if not isinstance(o, Exception) else type(o).__name__ for o in outs])
                P("C01", "block_built_from_views_of_decoded_arrays_encodes_their_values",
                  not isinstance(outs[0], Exception) and not isinstance(outs[1], Exception) and outs[0] == outs[1])

            # ---------------- C05: gaps -------------------------------------------------------
            if pid == "C05" and kind in ("data3d", "emg", "force3d", "fpdata"):
                head, lab, comps = track_layout(kind, blk)
                p = head
                ts = tracks_of(kind, blk)
                ts2 = tracks_of(kind, blk2)
                # second, independent decode of the same bytes (fresh uninitialised memory)
                blk3, _ = B.decode(I, kind, bytes1, blk.format.value, SENTINEL)
                ts3 = tracks_of(kind, blk3)
                any_gap = False
                for k, t in enumerate(ts):
                    mask = snap_masks[k]
                    want = runs_of(mask)
                    if not all(mask):
                        any_gap = True
                    parsed = parse_segments(bytes1, p + lab)
                    P("C05", "segment_table_concrete", parsed is not None)
                    if parsed is None:
                        return
                    segs, after = parsed
                    I.observe(f"segs{k}", segs)
                    P("C05", "runs_nonempty", all(c > 0 for _, c in segs))
                    P("C05", "runs_inside_range", all(0 <= a and a + c <= n for a, c in segs))
                    P("C05", "runs_increasing_nontouching", all(segs[i][0] + segs[i][1] < segs[i + 1][0] for i in range(len(segs) - 1)))
                    P("C05", "runs_cover_exactly_present", segs == want, f"mask={mask} segs={segs}")
                    p = after + sum(c for _, c in segs) * comps * 4
                    # decoded content
                    c1 = all_components(I, kind, t, n)
                    c2 = all_components(I, kind, ts2[k], n)
                    c3 = all_components(I, kind, ts3[k], n)
                    gap_nan, present_same, stable = [], [], []
                    for f in range(n):
                        if not mask[f]:
                            for a in c2:
                                gap_nan.extend(B.isnan_list(I, a[f]))
                        else:
                            for ai, b in enumerate(c2):
                                present_same.append(snap_rows[k][ai][f] == B.tob(I, b[f], "<f4"))
                        for a, b in zip(c2, c3):
                            stable.append(B.tob(I, a[f], "<f4") == B.tob(I, b[f], "<f4"))
                    # the caller writes into the first decode (every frame of every component);
                    # a later decode of the same bytes must not see it
                    for a in c2:
                        for f in range(n):
                            a[f] = 7.0
                    blk4, _ = B.decode(I, kind, bytes1, blk.format.value, SENTINEL)
                    c4 = all_components(I, kind, tracks_of(kind, blk4)[k], n)
                    later = []
                    for f in range(n):
                        for a, b in zip(c3, c4):
                            later.append(B.tob(I, a[f], "<f4") == B.tob(I, b[f], "<f4"))
                    P("C05", "every_decode_identical", I.and_(*later) if later else True, f"after the first decode was overwritten in place; mask={mask}")
                    P("C05", "gap_frames_decode_to_NaN", I.and_(*gap_nan) if gap_nan else True, f"mask={mask}")
                    P("C05", "present_frames_keep_value", I.and_(*present_same) if present_same else True)
                    P("C05", "every_decode_identical", I.and_(*stable) if stable else True, f"mask={mask}")
                P("C05", "all_bytes_accounted", p == len(bytes1))
                if any_gap:
                    I.goal("gap")
                else:
                    I.goal("nogap")

        run_round("")
        how = sh.get("edit")
        if how:
            # the same objects again after an in-place edit of frame 0 of the first item (no
            # setter, no new array object): sizes, runs and content must follow the data
            edit_in_place(I, kind, blk, n, how)
            I.goal("edited")
            run_round(".after_in_place_edit")
    return h

# ---------------------------------------------------------------------------------
# shape vectors
# ---------------------------------------------------------------------------------


def shapes(tier: str, pid: str):
    q = tier == "quick"
    out = []
    A = out.append
    if pid == "C05":
        nmax1 = 5 if q else 10
        for kind in ("data3d", "emg", "force3d", "fpdata"):
            key = {"data3d": "tracks", "emg": "signals", "force3d": "tracks", "fpdata": "plats"}[kind]
            for n in range(1, nmax1 + 1):
                A((kind, {"n": n, key: 1, "lab": 1, "links": 0}))
            for n in ([1, 2, 3] if q else [1, 2, 3, 4, 5]):
                A((kind, {"n": n, key: 2, "lab": 0, "links": 0}))
            if not q:
                A((kind, {"n": 2, key: 3, "lab": 0, "links": 0}))
                A((kind, {"n": 3, key: 3, "lab": 0, "links": 0}))
            # a frame whose deciding component is +-inf is stored as a gap: the run table,
            # the data section and the decoder must agree on that too
            for n in ([2, 3] if q else [1, 2, 3, 4, 5]):
                A((kind, {"n": n, key: 1, "lab": 0, "links": 0, "allow_inf": True}))
            A((kind, {"n": 2, key: 2, "lab": 0, "links": 0, "allow_inf": True}))
            # compute once, edit the gap pattern in place, compute again (stale caches)
            for how in ("blank", "fill"):
                for n in ([2, 3] if q else [1, 2, 3, 4]):
                    A((kind, {"n": n, key: 1, "lab": 0, "links": 0, "edit": how}))
                A((kind, {"n": 2, key: 2, "lab": 0, "links": 0, "edit": how}))
        return out
    # C01 / C02
    frames = [1, 2, 3] if q else [1, 2, 3, 4, 5, 6]
    for kind, key in (("data3d", "tracks"), ("emg", "signals"), ("force3d", "tracks"), ("fpdata", "plats")):
        A((kind, {"n": 2, key: 0, "links": 0}))
        for n in frames:
            A((kind, {"n": n, key: 1, "lab": [2], "links": 1}))
        A((kind, {"n": 2, key: 2, "lab": [0, 3], "links": 2}))
        if not q:
            A((kind, {"n": 3, key: 3, "lab": [1], "links": 0}))
            A((kind, {"n": 8, key: 1, "lab": [1], "links": 0}))
    for kind, key in (("data3d", "tracks"), ("emg", "signals"), ("force3d", "tracks"), ("fpdata", "plats")):
        # encode, edit frame 0 of the first item in place, encode again
        for how in ("blank", "fill"):
            A((kind, {"n": 3, key: 1, "lab": [1], "links": 0, "edit": how}))
            if not q:
                A((kind, {"n": 2, key: 2, "lab": [0, 1], "links": 1, "edit": how}))
    for kind, key in (("data3d", "tracks"), ("emg", "signals"), ("force3d", "tracks"), ("fpdata", "plats")):
        # the same float32 values handed over as a big-endian array
        A((kind, {"n": 2, key: 1, "lab": [1], "links": 0, "given": ">f4"}))
        # decode, crop every decoded array to frames 1.., build a new block from the views
        A((kind, {"n": 3, key: 1, "lab": [1], "links": 0, "crop": True}))
        # ... and as column-major (Fortran-contiguous) arrays
        A((kind, {"n": 2, key: 1, "lab": [1], "links": 0, "given": "F"}))
    # scale boundary: more than 2^15 / 2^16 points in one 2D block (concrete samples)
    A(("data2d", {"cells": [[30000, 30000, 30000, 30000]], "concrete_points": True}))
    # item lists edited through the public list after a first encoding
    A(("events", {"events": [(1, 1), (0, 1)], "lab": [1, 0], "edit": "values"}))
    A(("events", {"events": [(1, 2)], "lab": [2], "edit": "append"}))
    A(("optical", {"channels": 1, "lab": [2], "edit": "append"}))
    if pid == "C02":
        # empty 2D cells (no points) in both spellings: sizes and consumption must still agree
        A(("data2d", {"cells": [["e1", 1], [1, "e2"]]}))
        A(("data2d", {"cells": [[1, "e1", 2]]}))
        # sizes must agree also when a deciding component is +-inf (stored as a gap)
        for kind, key in (("data3d", "tracks"), ("emg", "signals"), ("force3d", "tracks"), ("fpdata", "plats")):
            A((kind, {"n": 2, key: 1, "lab": [1], "links": 0, "allow_inf": True}))
            A((kind, {"n": 3, key: 1, "lab": [0], "links": 0, "allow_inf": True}))
    A(("data3d", {"n": 2, "tracks": 1, "fmt": 2, "lab": [1]}))
    A(("data3d", {"n": 1, "tracks": 1, "fmt": 1, "links": None, "lab": [1]}))  # links attribute never set
    A(("data3d", {"n": 1, "tracks": 1, "fmt": 1, "links": 2, "lab": [40 if q else 255], "flag": 1}))
    A(("emg", {"n": 60, "signals": 0}))
    A(("fpcal", {"plats": 0}))
    A(("fpcal", {"plats": 1, "lab": [3]}))
    A(("fpcal", {"plats": 2, "lab": [0, 40 if q else 255]}))
    A(("data2d", {"cells": []}))
    A(("data2d", {"cells": [[None]]}))
    A(("data2d", {"cells": [[1, None], [2, 1]]}))
    A(("data2d", {"cells": [[None, None, 1]], "flag": 1}))
    for fmt in (1, 2):
        A(("calib", {"fmt": fmt, "cams": 0, "model": 0}))
        A(("calib", {"fmt": fmt, "cams": 1, "model": 3 if fmt == 1 else 1}))
        A(("calib", {"fmt": fmt, "cams": 2, "model": 2}))
    if pid in ("C02", "C01"):
        for dt in ("<i8", "<i4", "<u1"):
            A(("calib", {"fmt": 1, "cams": 2, "model": 0, "map_dtype": dt}))
    A(("optical", {"channels": 0}))
    A(("optical", {"channels": 1, "lab": [2]}))
    A(("optical", {"channels": 2, "lab": [1, 30]}))
    A(("events", {"events": []}))
    A(("events", {"events": [(0, 1)], "lab": [2]}))
    A(("events", {"events": [(0, 0), (1, 2)], "lab": [0, 3]}))
    A(("events", {"events": [(1, 0), (1, 1), (0, 1)], "lab": [1, 255, 1]}))  # the 255/256-byte boundary, every tier
    if not q:
        for kind, key in (("data3d", "tracks"), ("emg", "signals"), ("force3d", "tracks"), ("fpdata", "plats")):
            A((kind, {"n": 2, key: 3, "lab": [1, 0, 2], "links": 3}))  # 3 items: 2^6 gap masks (4096 masks at n=4 took a quarter of an hour per instance)
            A((kind, {"n": 10, key: 1, "lab": [1], "links": 0}))
            A((kind, {"n": 5, key: 2, "lab": [2], "links": 1}))
        A(("data2d", {"cells": [[2, 1, None], [None, 3, 1], [1, None, 2]]}))
        A(("data2d", {"cells": [[4]], "flag": 1}))
        A(("calib", {"fmt": 1, "cams": 4, "model": 3}))
        A(("calib", {"fmt": 2, "cams": 2, "model": 3}))
        A(("optical", {"channels": 4, "lab": [3, 0, 31, 7]}))
        A(("events", {"events": [(1, 4), (1, 0), (0, 1), (0, 0)], "lab": [1, 2, 0, 3]}))
        A(("fpcal", {"plats": 4, "lab": [0, 1, 2, 3]}))
        A(("fpcal", {"plats": 3, "lab": [1, 2, 31]}))
        A(("data2d", {"cells": [[1, 2], [None, 3], [2, None]]}))
        A(("data2d", {"cells": [[3, 1, None], [None, 1, 2]]}))
        A(("calib", {"fmt": 1, "cams": 3, "model": 1}))
        A(("calib", {"fmt": 2, "cams": 3, "model": 0}))
        A(("optical", {"channels": 3, "lab": [0, 15, 30]}))
        A(("events", {"events": [(1, 3), (0, 1), (1, 2)], "lab": [4, 0, 2]}))
        for L in (0, 1, 31, 127, 254, 255):
            A(("data3d", {"n": 1, "tracks": 1, "fmt": 2, "lab": [L]}))
            A(("events", {"events": [(0, 1)], "lab": [L]}))
        for L in range(0, 31):
            A(("optical", {"channels": 1, "lab": [L]}))
    return out


def _name(kind, sh):
    return kind + "." + ",".join(f"{k}={v}" for k, v in sorted(sh.items())).replace(" ", "")


def instances_for(pid: str, tier: str):
    out = []
    for kind, sh in shapes(tier, pid):
        n = sh.get("n", 1)
        cnt = max(1, sh.get("tracks", sh.get("signals", sh.get("plats", 1))))
        goals = ["encoded"]
        if pid == "C05":
            goals = ["gap", "nogap"]
        if sh.get("edit"):
            goals = goals + ["edited"]
        out.append(Instance(_name(kind, sh), case(kind, sh, pid), goals=goals, cost=(2 ** (n * cnt)) if kind in ("data3d", "emg", "force3d", "fpdata") else 1,
                            meta={"kind": kind, "shape": sh}))
    return out
