"""C15 - channel numbers stay attached to their items through edits.

Real functions: EMG.addSignal/removeSignal, ForcePlatformsCalibrationDataBlock.
add_platform(s)/remove_platform(s)/platforms(setter)/__init__, ForcePlatformsDataBlock.
add_platform/platforms(setter), and the three _build/_write pairs.
Symbolic: every explicit channel (full i16/u16 range), every index, labels, samples.
Enumerated: start state (empty, constructor-filled, decoded), operation-kind sequences.
A reference association list is updated alongside; the channel map is read back from
the encoded bytes by an independent parser.
"""
import itertools

from symtdf.runner import Instance
from . import blocks as B

PROPERTY = "C15"
META = {
    "explanation": "symbolic execution of the real add/remove/assign methods against a reference association list; channels and indices are solver variables, so 'taken / not taken', 'max+1 overflows the on-disk width' and every index class are solver-decided branches",
    "bounds": {"quick": {"start_states": "empty, constructor-filled (calibration), decoded with 1-2 items", "sequence_length": "<= 2 (1 from the two-item decoded state; at most one bulk operation)", "index_window": "[-n-2, n+2]"},
               "thorough": {"start_states": "same, decoded with up to 3 items", "sequence_length": "<= 2 over the full alphabet (quick alphabet from decoded-2, 1 from decoded-3); 3 over the quick alphabet from empty / decoded-1 / constructor-1", "index_window": "[-n-2, n+2]"}},
    "outside_bounds": ["longer sequences", "blocks with more than 5 items", "atomicity of bulk operations that fail midway (only alignment/uniqueness invariants are asserted there)"],
    "assumptions": ["items carry pairwise distinct labels (so equality-based removal is identity-based)"],
}

CH = {"emg": "i16", "fpcal": "i16", "fpdata": "u16"}
HDR = {"emg": 16, "fpcal": 8, "fpdata": 16}


def _item(I, cls, tag):
    if cls == "emg":
        d = I.farray(f"{tag}.d", (1,))
        B.assume_no_nan(I, d)
        return I.mod("tdfEMG").EMGTrack(I.label(f"{tag}.lab", 1), d)
    if cls == "fpcal":
        size, pos = I.farray(f"{tag}.size", (2,)), I.farray(f"{tag}.pos", (4, 3))
        B.assume_no_nan(I, size)
        B.assume_no_nan(I, pos)
        return I.mod("tdfForcePlatformsCalibration").ForcePlatformInfo(I.label(f"{tag}.lab", 1), size, pos)
    ap, fo, to = I.farray(f"{tag}.ap", (1, 2)), I.farray(f"{tag}.f", (1, 3)), I.farray(f"{tag}.t", (1,))
    B.assume_frames(I, 1, [ap, fo, to.reshape(1, 1)])
    return I.mod("tdfForcePlatformsData").ForcePlatformData(ap, fo, to)


def _new(I, cls):
    if cls == "emg":
        return I.mod("tdfEMG").EMG(100, 1)
    if cls == "fpcal":
        return I.mod("tdfForcePlatformsCalibration").ForcePlatformsCalibrationDataBlock()
    return I.mod("tdfForcePlatformsData").ForcePlatformsDataBlock(0.0, 100, 1)


def _items(cls, blk):
    if cls == "emg":
        return list(blk)
    if cls == "fpcal":
        return [p for _, p in blk.platforms]
    return list(blk.platforms)


def _label_of(cls, it):
    return getattr(it, "label", None)


def _distinct_labels(I, items, cls):
    # only EMG signals are addressed by label; calibration platforms may be value-equal
    # twins (same label, size and vertices on different channels)
    if cls in ("fpdata", "emg"):
        return  # EMG: duplicate labels are allowed (addSignal takes them)
    if cls == "fpcal":
        # two platforms either differ in their label or are bit-identical twins: keeps numpy's
        # tolerance comparison (abstracted in the model) decided for every pair
        for i in range(len(items)):
            for j in range(i + 1, len(items)):
                a, b = items[i], items[j]
                twin = I.and_(B.tob(I, a.size, "<f4") == B.tob(I, b.size, "<f4"), B.tob(I, a.position, "<f4") == B.tob(I, b.position, "<f4"))
                I.assume(I.or_(I.not_(a.label == b.label), twin))
        return
    labs = [it.label for it in items]
    for i in range(len(labs)):
        for j in range(i + 1, len(labs)):
            I.assume(I.not_(labs[i] == labs[j]))


def check_state(I, cls, blk, model, where):
    """model: list of (channel, item).  All assertions on observable state."""
    P = lambda lab, c, note="": I.prove(f"C15.{cls}.{lab}", c, f"{where} {note}")  # noqa: E731
    items = _items(cls, blk)
    P("items_match_model", len(items) == len(model) and all(a is m[1] for a, m in zip(items, model)), f"items={len(items)} model={len(model)}")
    try:
        data = B.encode(I, blk)
        exc = None
    except Exception as e:  # noqa: BLE001
        data, exc = None, e
    P("block_encodes", exc is None, f"{type(exc).__name__ if exc else ''}: {exc}" if exc else "")
    if exc is not None:
        return
    I.observe(where, data)
    n = int.from_bytes(data[0:4], "little") if isinstance(data[0:4], bytes) else None
    P("encoded_count_eq_items", n == len(model))
    item_bytes = 0
    for it in items:
        item_bytes += it.nBytes
    P("channel_list_same_length_as_items", len(data) == HDR[cls] + 2 * len(model) + item_bytes, f"len={len(data)}")
    if len(data) != HDR[cls] + 2 * len(model) + item_bytes:
        return
    conds = []
    for k, (ch, _) in enumerate(model):
        got = data[HDR[cls] + 2 * k: HDR[cls] + 2 * k + 2]
        conds.append(got == B.tob(I, ch, "<i2" if CH[cls] == "i16" else "<u2"))
    P("encoded_pairs_in_order", I.and_(*conds) if conds else True)
    # uniqueness at on-disk width
    uniq = []
    for i in range(len(model)):
        for j in range(i + 1, len(model)):
            a = data[HDR[cls] + 2 * i: HDR[cls] + 2 * i + 2]
            b = data[HDR[cls] + 2 * j: HDR[cls] + 2 * j + 2]
            uniq.append(I.not_(a == b))
    P("channels_unique_on_disk", I.and_(*uniq) if uniq else True)
    if cls == "fpcal":
        pairs = blk.platforms
        P("platforms_property_pairs", len(pairs) == len(model) and I.truth(I.and_(*[c == m[0] for (c, _), m in zip(pairs, model)])) if len(pairs) == len(model) else False)
    if cls == "fpdata":
        pairs = list(iter(blk))
        P("iteration_pairs", len(pairs) == len(model) and all(p[1] is m[1] for p, m in zip(pairs, model)))


def _in_use(I, model, ch):
    """Decided truth of 'ch is one of the model's channels'."""
    for c, _ in model:
        if I.truth(c == ch):
            return True
    return False


def _current_channels(I, cls, blk, n):
    """Channels as the block reports them (used to read back an automatic channel)."""
    if cls == "emg":
        return list(blk._emgMap)
    if cls == "fpcal":
        return [c for c, _ in blk.platforms]
    return [c for c, _ in iter(blk)]


def run_ops(I, cls, blk, model, ops):
    for step, op in enumerate(ops):
        tag = f"s{step}"
        kind = op[0]
        before = list(model)
        exc = None
        if kind in ("add_auto", "add_explicit"):
            it = _item(I, cls, tag)
            _distinct_labels(I, [m[1] for m in model] + [it], cls)
            ch = None if kind == "add_auto" else I.ibv(f"{tag}.ch", CH[cls])
            try:
                if cls == "emg":
                    blk.addSignal(it, channel=ch)
                else:
                    blk.add_platform(it, channel=ch)
            except Exception as e:  # noqa: BLE001
                exc = e
            I.observe(f"{tag}.exc", type(exc).__name__ if exc else None)
            if kind == "add_explicit":
                taken = _in_use(I, model, ch)
                if taken:
                    I.goal("explicit_taken")
                    I.prove(f"C15.{cls}.taken_channel_refused_with_ValueError", isinstance(exc, ValueError))
                else:
                    I.goal("explicit_free")
                    I.prove(f"C15.{cls}.free_explicit_channel_honoured", exc is None, f"{type(exc).__name__ if exc else ''}")
                    if exc is None:
                        model.append((ch, it))
            else:
                I.goal("auto")
                I.prove(f"C15.{cls}.automatic_add_succeeds", exc is None, f"{type(exc).__name__ if exc else ''}: {exc}" if exc else "")
                if exc is None:
                    chans = _current_channels(I, cls, blk, len(model) + 1)
                    if len(chans) == len(model) + 1:
                        newch = chans[-1]
                        I.prove(f"C15.{cls}.automatic_channel_not_in_use", I.and_(*[I.not_(c == newch) for c, _ in model]) if model else True)
                        model.append((newch, it))
                    else:
                        I.prove(f"C15.{cls}.channel_list_grows_with_items", False, f"{len(chans)} channels for {len(model) + 1} items")
                        return
        elif kind == "remove_label":  # EMG
            j = op[1]
            if j == "absent":
                lab = I.label(f"{tag}.lab", 2)
            else:
                if j >= len(model):
                    continue
                lab = model[j][1].label
            try:
                blk.removeSignal(lab)
            except Exception as e:  # noqa: BLE001
                exc = e
            I.observe(f"{tag}.exc", type(exc).__name__ if exc else None)
            # labels need not be unique: removal by label takes the first signal that carries
            # it (and exactly that signal's channel)
            hit = None
            for q, (_, mit) in enumerate(model):
                if I.truth(mit.label == lab):
                    hit = q
                    break
            if hit is None:
                I.prove(f"C15.{cls}.absent_label_refused_with_KeyError", isinstance(exc, KeyError), f"{type(exc).__name__ if exc else None}")
            else:
                I.goal("removed")
                I.prove(f"C15.{cls}.remove_by_label_succeeds", exc is None, f"{type(exc).__name__ if exc else ''}: {exc}" if exc else "")
                if exc is None:
                    del model[hit]
        elif kind == "remove_index":
            n = len(model)
            i = I.int(f"{tag}.i", -n - 2, n + 2)
            try:
                blk.remove_platform(i)
            except Exception as e:  # noqa: BLE001
                exc = e
            iv = i.__index__() if hasattr(i, "__index__") else int(i)
            I.observe(f"{tag}.i", [iv, type(exc).__name__ if exc else None])
            if -n <= iv < n:
                I.goal("removed")
                I.prove(f"C15.{cls}.remove_by_index_succeeds", exc is None)
                if exc is None:
                    del model[iv]
            else:
                I.goal("bad_index")
                I.prove(f"C15.{cls}.bad_index_refused", exc is not None)
        elif kind == "remove_item":
            j = op[1]
            if j == "foreign":
                it = _item(I, cls, tag)
                _distinct_labels(I, [m[1] for m in model] + [it], cls)
            else:
                if j >= len(model):
                    continue
                it = model[j][1]
            try:
                blk.remove_platform(it)
            except Exception as e:  # noqa: BLE001
                exc = e
            I.observe(f"{tag}.exc", type(exc).__name__ if exc else None)
            # removal "by item" has list semantics: the first member that is the object or
            # compares equal to it (a bit-identical twin) goes, together with its channel
            hit = None
            for q, (_, mit) in enumerate(model):
                if mit is it or (cls == "fpcal" and I.truth(mit.label == it.label)):
                    hit = q
                    break
            if hit is None:
                I.prove(f"C15.{cls}.foreign_item_refused", exc is not None)
            else:
                I.goal("removed")
                I.prove(f"C15.{cls}.remove_by_item_succeeds", exc is None)
                if exc is None:
                    del model[hit]
        elif kind == "add_many":
            k, explicit = op[1], op[2]
            its = [_item(I, cls, f"{tag}.{q}") for q in range(k)]
            _distinct_labels(I, [m[1] for m in model] + its, cls)
            chs = [I.ibv(f"{tag}.ch{q}", CH[cls]) for q in range(k)] if explicit else None
            try:
                blk.add_platforms(its, chs)
            except Exception as e:  # noqa: BLE001
                exc = e
            I.observe(f"{tag}.exc", type(exc).__name__ if exc else None)
            # element-wise reference semantics
            ref_exc = False
            for q in range(k):
                if explicit:
                    if _in_use(I, model, chs[q]):
                        ref_exc = True
                        break
                    model.append((chs[q], its[q]))
                else:
                    chans = _current_channels(I, cls, blk, 0)
                    if len(chans) <= len(model):
                        I.prove(f"C15.{cls}.channel_list_grows_with_items", False)
                        return
                    newch = chans[len(model)]
                    I.prove(f"C15.{cls}.automatic_channel_not_in_use", I.and_(*[I.not_(c == newch) for c, _ in model]) if model else True)
                    model.append((newch, its[q]))
            I.prove(f"C15.{cls}.bulk_add_refused_iff_some_channel_taken", (exc is not None) == ref_exc, f"{type(exc).__name__ if exc else None}")
            if ref_exc:
                I.prove(f"C15.{cls}.taken_channel_refused_with_ValueError", isinstance(exc, ValueError))
        elif kind == "remove_many":
            idxs = [j for j in op[1] if j < len(model)]
            its = [model[j][1] for j in idxs]
            try:
                blk.remove_platforms(its)
            except Exception as e:  # noqa: BLE001
                exc = e
            I.prove(f"C15.{cls}.bulk_remove_succeeds", exc is None)
            for it in its:
                for q, m in enumerate(model):
                    if m[1] is it:
                        del model[q]
                        break
        elif kind == "set_pairs":  # fpcal: platforms = [(ch, plat), ...]
            k = op[1]
            its = [_item(I, cls, f"{tag}.{q}") for q in range(k)]
            _distinct_labels(I, its, cls)
            chs = [I.ibv(f"{tag}.ch{q}", CH[cls]) for q in range(k)]
            try:
                blk.platforms = list(zip(chs, its))
            except Exception as e:  # noqa: BLE001
                exc = e
            I.observe(f"{tag}.exc", type(exc).__name__ if exc else None)
            new = []
            ref_exc = False
            for q in range(k):
                if _in_use(I, new, chs[q]):
                    ref_exc = True
                    break
                new.append((chs[q], its[q]))
            I.prove(f"C15.{cls}.assignment_refused_iff_duplicate_channel", (exc is not None) == ref_exc)
            model[:] = new
        elif kind == "set_list":  # fpdata: platforms = [plat, ...] (automatic channels)
            k = op[1]
            its = [_item(I, cls, f"{tag}.{q}") for q in range(k)]
            try:
                blk.platforms = its
            except Exception as e:  # noqa: BLE001
                exc = e
            I.observe(f"{tag}.exc", type(exc).__name__ if exc else None)
            I.prove(f"C15.{cls}.list_assignment_succeeds", exc is None, f"{type(exc).__name__ if exc else ''}: {exc}" if exc else "")
            if exc is not None:
                return
            chans = _current_channels(I, cls, blk, k)
            if len(chans) != k:
                I.prove(f"C15.{cls}.list_assignment_installs_exactly_the_list", False, f"{len(chans)} channels / {len(_items(cls, blk))} items after assigning {k}")
                return
            model[:] = list(zip(chans, its))
        elif kind == "add_unstorable":
            # an item whose label cannot be stored (256 characters): whether the block takes
            # it (and it is removed again here) or refuses it, channels and items stay aligned
            if cls == "emg":
                it = I.mod("tdfEMG").EMGTrack("x" * 256, I.np.zeros((1,), dtype="<f4"))
            else:
                it = I.mod("tdfForcePlatformsCalibration").ForcePlatformInfo("x" * 256, I.np.zeros((2,), dtype="<f4"), I.np.zeros((4, 3), dtype="<f4"))
            ch = I.ibv(f"{tag}.ch", CH[cls]) if op[1] else None
            if ch is not None:
                I.assume(I.and_(*[I.not_(c == ch) for c, _ in model]) if model else True)
            try:
                if cls == "emg":
                    blk.addSignal(it, channel=ch) if ch is not None else blk.addSignal(it)
                else:
                    blk.add_platform(it, channel=ch) if ch is not None else blk.add_platform(it)
            except Exception as e:  # noqa: BLE001
                exc = e
            I.observe(f"{tag}.exc", type(exc).__name__ if exc else None)
            I.goal("unstorable")
            if exc is None:
                try:
                    blk.removeSignal("x" * 256) if cls == "emg" else blk.remove_platform(it)
                    rexc = None
                except Exception as e:  # noqa: BLE001
                    rexc = e
                I.prove(f"C15.{cls}.accepted_item_can_be_removed_again", rexc is None, f"{type(rexc).__name__ if rexc else ''}")
            exc = None  # the model is unchanged either way; check_state below asserts the alignment
        elif kind == "set_list_bad":  # fpdata: a list whose last element is not a platform
            k = op[1]
            its = [_item(I, cls, f"{tag}.{q}") for q in range(k)]
            try:
                blk.platforms = its + ["not a platform"]
            except Exception as e:  # noqa: BLE001
                exc = e
            I.observe(f"{tag}.exc", type(exc).__name__ if exc else None)
            I.goal("bad_assignment")
            I.prove(f"C15.{cls}.assignment_with_a_wrong_object_refused", exc is not None)
            # whatever the refused assignment left behind (the previous items, or a prefix of
            # the new ones), items and channels are still aligned, every surviving item of
            # the previous content kept its channel, and later operations see that state
            items_now = _items(cls, blk)
            chans = _current_channels(I, cls, blk, len(items_now))
            I.prove(f"C15.{cls}.channel_list_same_length_as_items", len(chans) == len(items_now), f"after refused assignment: {len(chans)} / {len(items_now)}")
            if len(chans) != len(items_now):
                return
            for c, it in zip(chans, items_now):
                for c0, it0 in before:
                    if it0 is it:
                        I.prove(f"C15.{cls}.surviving_item_keeps_channel", c == c0, "after refused assignment")
            model[:] = list(zip(chans, items_now))
        if exc is not None and kind in ("add_auto", "add_explicit", "remove_label", "remove_index", "remove_item"):
            model[:] = before
        check_state(I, cls, blk, model, f"after step {step} ({kind})")
        if any(v == 0 and False for v in []):
            pass


def start_state(I, cls, start):
    """-> (block, model)"""
    if start == "empty":
        return _new(I, cls), []
    if start.startswith("decoded"):
        k = int(start[-1])
        src = _new(I, cls)
        its = [_item(I, cls, f"d{q}") for q in range(k)]
        _distinct_labels(I, its, cls)
        chs = [I.ibv(f"d{q}.ch", CH[cls]) for q in range(k)]
        B.assume_distinct(I, chs)
        for it, ch in zip(its, chs):
            if cls == "emg":
                src.addSignal(it, channel=ch)
            else:
                src.add_platform(it, channel=ch)
        data = B.encode(I, src)
        blk, _ = B.decode(I, cls, data, src.format.value)
        return blk, list(zip(chs, _items(cls, blk)))
    if start.startswith("ctor"):
        k = int(start[-1])
        its = [_item(I, cls, f"c{q}") for q in range(k)]
        _distinct_labels(I, its, cls)
        blk = I.mod("tdfForcePlatformsCalibration").ForcePlatformsCalibrationDataBlock(platforms=list(its))
        chans = [c for c, _ in blk.platforms]
        if len(chans) != k:
            I.prove(f"C15.{cls}.constructor_assigns_a_channel_per_platform", False, f"{len(chans)} channels for {k} platforms")
            return blk, None
        return blk, list(zip(chans, its))
    raise ValueError(start)


def seq_case(cls, start, ops):
    def h(I):
        blk, model = start_state(I, cls, start)
        if model is None:
            return
        check_state(I, cls, blk, model, "start")
        run_ops(I, cls, blk, model, ops)
        I.goal("done")
    return h


def alphabet(cls, tier):
    q = tier == "quick"
    if cls == "emg":
        return [("add_auto",), ("add_explicit",), ("remove_label", 0), ("remove_label", 1), ("remove_label", "absent"), ("add_unstorable", True)] + ([] if q else [("add_unstorable", False)])
    if cls == "fpdata":
        return [("add_auto",), ("add_explicit",), ("set_list", 2), ("set_list_bad", 1)] + ([] if q else [("set_list", 0), ("set_list", 1), ("set_list_bad", 0), ("set_list_bad", 2)])
    a = [("add_auto",), ("add_explicit",), ("remove_index",), ("remove_item", 0), ("remove_item", "foreign"),
         ("add_many", 2, True), ("add_many", 2, False), ("set_pairs", 2)]
    if not q:
        a += [("add_unstorable", True)]
    if not q:
        a += [("remove_item", 1), ("remove_many", (0, 1)), ("set_pairs", 0), ("add_many", 1, True)]
    return a


def _opname(op):
    return "_".join(str(x) for x in op).replace(" ", "")


def instances(tier):
    q = tier == "quick"
    out = []
    maxlen = 2 if q else 3
    for cls in ("emg", "fpcal", "fpdata"):
        starts = ["empty", "decoded1", "decoded2"] + (["ctor1", "ctor2"] if cls == "fpcal" else []) + ([] if q else ["decoded3"])
        alpha = alphabet(cls, tier)
        for st in starts:
            out.append(Instance(f"{cls}.{st}.noop", seq_case(cls, st, ()), goals=["done"]))
            for n in range(1, maxlen + 1):
                if n == 3:
                    # three-step histories: the smaller (quick) alphabet, from the empty, the
                    # one-item decoded and the constructor-filled state
                    if st not in ("empty", "decoded1", "ctor1"):
                        continue
                    alpha_n = alphabet(cls, "quick")
                elif n == 2 and st == "decoded3":
                    continue  # three decoded items: single operations only (ordering forks of max())
                elif n == 2 and st == "decoded2":
                    alpha_n = alphabet(cls, "quick")
                else:
                    alpha_n = alpha
                for seq in itertools.product(alpha_n, repeat=n):
                    bulk = sum(1 for o in seq if o[0] in ("add_many", "set_pairs", "set_list", "set_list_bad"))
                    if n == 3 and (st == "decoded3" or bulk > 1):
                        continue
                    if q and n == 2 and (st == "decoded2" or bulk > 1):
                        continue  # ordering forks of max() over symbolic channels: thorough tier
                    out.append(Instance(f"{cls}.{st}." + ">".join(_opname(o) for o in seq), seq_case(cls, st, seq), cost=2 ** n))
    return out
