"""C10 - container property checked by the shared inductive step harness (harness/cstep.py)."""
from . import cstep

PROPERTY = "C10"
META = {
    "explanation": "one (to three) real add_block/remove_block/replace_block/setter call(s) executed symbolically from an arbitrary compact well-formed pre-state on a SymFile: table length and live pattern enumerated; every block size, offset, format code, date, comment character and payload byte symbolic; assertions on an independent parse of the committed file",
    "bounds": {"quick": {"table_length_N": "1-3", "live_slots": "0..N (two type orders)", "steps": "1, plus 2-step sequences (also: a request refused for its comment, then an accepted add; blocks whose dates carry microseconds); library-only histories of length <= 3 from the real Tdf.new output (7-operation alphabet)", "sizes": "any >= 1 with file < 2 GiB"},
               "thorough": {"table_length_N": "1-6, 14", "live_slots": "0..N (14: 0, 3, 13 and 14 = full table)", "steps": "1-3; library-only histories of length <= 4 from the real Tdf.new output", "sizes": "any >= 1 with file < 2 GiB"}},
    "outside_bounds": ["non-compact foreign files", "files of 2 GiB or more", "table lengths other than those listed", "I/O errors, concurrent writers"],
    "assumptions": ["OpaqueBlock stands for any block whose _write emits nBytes bytes (discharged for real blocks by C02)",
                    "SymFile buffering contract: writes become visible at flush/seek/read/truncate/close",
                    "induction: the step obligations are discharged from an arbitrary pre-state satisfying the compactness invariant"],
}


def instances(tier):
    return cstep.instances_for("C10", tier)
